---------------------------- MODULE UKVFileTrace ----------------------------
(* Direction B for C02 (raw layer): long random histories recorded from real  *)
(* UKVFile objects are validated event by event against UKVFile.tla.  The key *)
(* and value universes (tokens with byte lengths) are read from the trace      *)
(* file; every event carries the call, its outcome, the handle's key listing   *)
(* after the call and - when no writer is open - the size of the file.         *)
EXTENDS UKVFile, Json, IOUtils, TLCExt
VARIABLES ti, l
tvars == <<vars, ti, l>>
Traces == ndJsonDeserialize(IOEnv.TRACE_FILE)
NT == Len(Traces)
Tr == Traces[ti].ev
Ev == Tr[l]
ToSet(s) == {s[i] : i \in 1..Len(s)}
TraceKeys == DOMAIN Traces[1].klen
TraceVals == DOMAIN Traces[1].vlen
TraceKLen == Traces[1].klen
TraceVLen == Traces[1].vlen
TraceHandles == ToSet(Traces[1].handles)
HdrT == {"hdDef", "hdFull"}
HLT == [h \in HdrT |-> IF h = "hdDef" THEN 0 ELSE 25]
DevNone == {}

After(h) == /\ ToSet(Ev.keys) = hs'[h].toc                 \* the handle's listing after the call
            /\ (Ev.size >= 0 => Ev.size = Size')              \* independent file size, logged when no writer is open
            /\ last'.out = Ev.out
TNewX   == Ev.ev = "newx" /\ NewX(Ev.h, Ev.hdr) /\ After(Ev.h)
TNew    == Ev.ev = "new" /\ New(Ev.h, Ev.mode) /\ After(Ev.h)
TReopen == Ev.ev = "reopen" /\ Reopen(Ev.h, Ev.mode) /\ After(Ev.h)
TClose  == Ev.ev = "close" /\ Close(Ev.h) /\ After(Ev.h)
TPickle == Ev.ev = "pickle" /\ Pickle(Ev.h) /\ After(Ev.h)
TPut    == Ev.ev = "put" /\ Put(Ev.h, Ev.k, Ev.v) /\ After(Ev.h)
TGet    == Ev.ev = "get" /\ Get(Ev.h, Ev.k) /\ After(Ev.h) /\ (Ev.out = "ok" => last'.val = Ev.val)
Step == /\ ti <= NT /\ l <= Len(Tr)
        /\ (TNewX \/ TNew \/ TReopen \/ TClose \/ TPickle \/ TPut \/ TGet)
        /\ l' = l + 1 /\ ti' = ti
Reset == /\ file' = [exists |-> FALSE, hdr |-> NoHdr, recs |-> <<>>, gen |-> 0]
         /\ hs' = [h \in Handle |-> [mode |-> "none", toc |-> {}, n |-> 0, g |-> 0, hdr |-> NoHdr]]
         /\ last' = [act |-> "init", out |-> "ok"]
NextTrace == ti' = ti + 1 /\ l' = 1 /\ Reset
Finish == /\ ti <= NT /\ l = Len(Tr) + 1
          /\ PrintT(<<"VERDICT", Traces[ti].tid, "ACCEPT">>) /\ NextTrace
Stuck  == /\ ti <= NT /\ l <= Len(Tr) /\ ~ENABLED Step
          /\ PrintT(<<"VERDICT", Traces[ti].tid, "STUCK", l>>) /\ NextTrace
TraceInit == Init /\ ti = 1 /\ l = 1
TraceNext == Step \/ Finish \/ Stuck
TraceSpec == TraceInit /\ [][TraceNext]_tvars
=============================================================================
