------------------------------ MODULE MCJobRun ------------------------------
EXTENDS JobRun, Json
F2 == {"f1.txt", "f2.bin"}
Pool == {[named |-> TRUE, rc |-> 0, writes |-> {}], [named |-> FALSE, rc |-> 0, writes |-> {"f1.txt"}],
         [named |-> TRUE, rc |-> 3, writes |-> {"f2.bin"}], [named |-> TRUE, rc |-> 0, writes |-> {"f1.txt", "f2.bin"}],
         [named |-> FALSE, rc |-> 1, writes |-> {}],
         [named |-> TRUE, rc |-> 137, writes |-> {"f1.txt"}]}     \* rc 137: the command is killed by a signal (kill -9 $$)
\* env_path: the job's own envars override PATH and its commands name a program found only through that PATH
\* rel_out / rel_scratch / rel_job: the runner is started with a RELATIVE output directory / scratch directory / job file
FormsAll == {"full", "nofiles_none", "nofiles_empty", "noenv_none", "noenv_empty", "noret_none", "noret_empty", "rel_out", "rel_scratch", "rel_job", "env_path"}
FormsQ == {"full", "nofiles_none", "noenv_empty", "noret_none", "rel_out", "rel_scratch", "env_path"}
DevNone == {}
DevContinue == {"ContinueAfterFailure"}
DevExitF == {"ExitIgnoresFailure"}
DevExitM == {"ExitIgnoresMissing"}
DevKeep == {"KeepScratch"}
View == sv
(* one edge per complete run: the emitter only prints the Collect step, with the job and its result *)
Emit == IF last'.act = "collect"
          THEN PrintT(ToJson([from |-> <<"init">>, act |-> [act |-> "run", cmds |-> cmds, form |-> form], to |-> <<"done", cmds, form>>, obs |-> result']))
          ELSE TRUE
=============================================================================
