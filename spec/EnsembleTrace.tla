--------------------------- MODULE EnsembleTrace ---------------------------
(* Trace validation for C14 (DESIGN 2.2/2.4): every event recorded from a real *)
(* history on a real ConformerEnsemble must be a step of Ensemble.tla - the    *)
(* same actions the model checker explores, here with the arguments of the     *)
(* event (coordinates in micro-Angstrom, charges and weights in 1e-3) - and    *)
(* the state it leads to must show exactly what the code showed afterwards:    *)
(* array shapes, array contents, every row as read through ens[i], the value   *)
(* returned (yielded conformer, parsed dump, stored-and-reloaded ensemble).    *)
(* Many traces are validated in one TLC run; verdicts are total.               *)
EXTENDS Ensemble, Json, IOUtils, TLCExt
VARIABLES ti, l
tvars == <<vars, ti, l>>
Traces == ndJsonDeserialize(IOEnv.TRACE_FILE)
NT == Len(Traces)
Tr == Traces[ti].ev
A  == Tr[l].a            \* the call: act, arguments, out, (val)
Post == Tr[l].post       \* what the public API showed after the call

Call ==
  CASE A.act = "newatoms"  -> NewAtoms(A.form, A.k, A.a, A.C, A.Q)
    [] A.act = "newmol"    -> NewMol(A.m, A.n, A.a, A.C, A.Q)
    [] A.act = "newlist"   -> NewList(A.ms, A.n)
    [] A.act = "newcopy"   -> NewCopy(A.n)
    [] A.act = "append"    -> AppendC(A.m)
    [] A.act = "extlist"   -> ExtendList(A.ms)
    [] A.act = "extens"    -> ExtendEns(A.o, A.how)
    [] A.act = "scale"     -> Scale(A.f)
    [] A.act = "invert"    -> Invert
    [] A.act = "translate" -> Translate(A.v)
    [] A.act = "rotate"    -> Rotate(A.R)
    [] A.act = "center"    -> CenterAt(A.a)
    [] A.act = "rotstack"  -> RotateStack(A.Rs)
    [] A.act = "trstack"   -> TranslateStack(A.vs)
    [] A.act = "swc"       -> SrcWriteC(A.i, A.row)
    [] A.act = "swq"       -> SrcWriteQ(A.i, A.row)
    [] A.act = "ssw"       -> SrcSetW(A.i, A.w)
    [] A.act = "str"       -> SrcTranslate(A.v)
    [] A.act = "vwc"       -> VWriteC(A.i, A.row)
    [] A.act = "vwq"       -> VWriteQ(A.i, A.row)
    [] A.act = "vsa"       -> VSetAtom(A.i, A.b, A.p)
    [] A.act = "vtr"       -> VTranslate(A.i, A.v)
    [] A.act = "setw"      -> SetW(A.i, A.w)
    [] A.act = "asc"       -> AssignC(A.X)
    [] A.act = "asq"       -> AssignQ(A.X)
    [] A.act = "asw"       -> AssignW(A.X)
    [] A.act = "start"     -> StartIter(A.it)
    [] A.act = "next"      -> NextIt(A.it)
    [] A.act = "collect"   -> Collect(A.it)
    [] A.act = "hwc"       -> HeldWrite(A.it, A.j, A.row)
    [] A.act = "hwq"       -> HeldWriteQ(A.it, A.j, A.row)
    [] A.act = "dump"      -> Dump(A.fmt)
    [] A.act = "cdump"     -> CDump(A.i, A.fmt)
    [] A.act = "ser"       -> Ser
    [] A.act = "cser"      -> CSer(A.i)
    [] A.act = "slice"     -> Slice(A.lo, A.hi)
    [] OTHER -> FALSE

Step == /\ ti <= NT /\ l <= Len(Tr)
        /\ Call
        /\ last'.out = A.out
        /\ ("val" \in DOMAIN A) = ("val" \in DOMAIN last')
        /\ ("val" \in DOMAIN A) => last'.val = A.val
        /\ Obs' = Post
        /\ l' = l + 1 /\ ti' = ti

Reset == ens' = NoEns /\ its' = [it \in Iter |-> NoIt] /\ nt' = 0 /\ last' = [act |-> "init", out |-> "ok"]
NextTrace == ti' = ti + 1 /\ l' = 1 /\ Reset
Finish == /\ ti <= NT /\ l = Len(Tr) + 1
          /\ PrintT(<<"VERDICT", Traces[ti].tid, "ACCEPT">>)
          /\ NextTrace
Stuck  == /\ ti <= NT /\ l <= Len(Tr) /\ ~ENABLED Step
          /\ PrintT(<<"VERDICT", Traces[ti].tid, "STUCK", l>>)
          /\ NextTrace
TraceInit == Init /\ ti = 1 /\ l = 1
TraceNext == Step \/ Finish \/ Stuck
TraceSpec == TraceInit /\ [][TraceNext]_tvars

Iters3  == {"i1", "i2", "i3"}
OpsAll  == {"grow", "iter", "view", "xform", "dump", "io", "copy", "append"}
FreeAll == {"qown", "qzero", "wsrc", "wone", "adopt", "refuse", "ext0ok", "ext0err"}
NoPool  == <<>>
NoSet   == {}
DevNone == {}
=============================================================================
