----------------------------- MODULE MCReaders -----------------------------
(* Model-checking wrapper for Readers: every damage of every generated file.   *)
(* One behaviour = one (format, style, file, damage): Init chooses them, the    *)
(* reader machine then runs to "done" or "error".                              *)
EXTENDS Readers, Json
CONSTANTS Fmts, Styles, MaxMols, MaxAtoms, SkipShapes, Classes

Shapes    == {[na |-> a, nb |-> b] : a \in 0..MaxAtoms, b \in 0..1} \ {[na |-> a, nb |-> 1] : a \in 0..1}
ShapesOf(f) == IF f = "xyz" THEN {s \in Shapes : s.nb = 0} ELSE Shapes \ SkipShapes
ShapeSeqs(f) == UNION {[1..n -> ShapesOf(f)] : n \in 1..MaxMols}
StylesOf(f) == IF f = "xyz" THEN {"plain"} ELSE Styles

ClassesOf(f) == IF f = "xyz" THEN {"Molecule"} ELSE Classes
MCInit == \E f \in Fmts : \E c \in ClassesOf(f) : \E st \in StylesOf(f) : \E shs \in ShapeSeqs(f) :
            LET file == Render(f, st, shs) IN
            \E d \in Damages(f, file) :
              /\ fmt = f /\ cls = c /\ meta = [style |-> st, shapes |-> shs] /\ orig = file /\ dmg = d /\ ref = MkRef(f, st, shs, c)
              /\ lines = Apply(file, d) /\ ReaderInit /\ last = [act |-> "init"]
MCSpec == MCInit /\ [][ReaderNext]_vars

View == <<ivars, rvars>>
(* one line per finished behaviour: the input, what the modelled reader did, and whether the contract holds *)
Emit == IF pc' \in {"done", "error"}
          THEN PrintT(ToJson([act |-> [name |-> "end"], fmt |-> fmt, cls |-> cls, style |-> meta.style, shapes |-> meta.shapes,
                              op |-> dmg.op, i |-> dmg.i, v |-> dmg.v, line |-> dmg.line,
                              status |-> pc', n |-> Len(out'),
                              ok |-> (pc' = "done" => RetOK(out', ref, Declared(fmt, lines)))]))
          ELSE TRUE

Ident(x) == x
FmtBoth == {"mol2", "xyz"}
FmtMol2 == {"mol2"}
FmtXyz  == {"xyz"}
StylesQ == {"blank", "nostatus"}
StylesT == {"blank", "nostatus", "stars", "unity", "sub"}
StylesU == {"unity", "sub", "stars"}
SkipNone == {}
SkipQ == {[na |-> 2, nb |-> 0]}      \* quick tier: mol2 shapes (0,0), (1,0), (2,1)
ClsMol == {"Molecule"}
ClsStruct == {"Structure"}
ClsBoth == {"Molecule", "Structure"}
DevNone == {}
DevNoQ == {"MissingChargeIsZero"}
DevSlot == {"SlotById"}
DevWrap == {"EndpointWraps"}
DevAsFound == {"StaleLists", "NoCountCheck"}
DevStale == {"StaleLists"}
DevRepeat == {"RepeatedBlockAccepted"}
DevNoCount == {"NoCountCheck", "EofEndsBlock"}
DevXyzCount == {"XyzCountNotEnforced"}
DevXyzEof == {"XyzEofEndsFrame"}
DevSpin == {"PutBackNoProgress"}
DevCut == {"LastTokenCut"}
DevOptCut == {"OptionalBlockCut"}
StylesUnity == {"unity"}
=============================================================================
