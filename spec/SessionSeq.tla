----------------------------- MODULE SessionSeq -----------------------------
(* C04, direction A: whole sessions of ONE process over several long-lived    *)
(* collection objects (stale caches), with an exception injected at each step *)
(* of a session.  One action = one complete `with lib.reading()/writing()`.   *)
(* It is the sequential projection of Sessions.tla: Request;Acquire;Begin;     *)
(* body;flush;End;Release collapsed, with the failure point as a parameter.    *)
(* After EVERY session - failing or not - the lock must be obtainable by       *)
(* another process and the file must hold exactly the records the fine-grained *)
(* model commits.                                                              *)
EXTENDS Naturals, Sequences, FiniteSets, TLC
CONSTANTS Hnd, Buffered,   \* Buffered : [Hnd -> BOOLEAN]  (bufsize large vs. -1)
          MaxSess, MaxPuts, Deviations
VARIABLES file,   \* set of committed record ids <<session, j>>
          left,   \* [Hnd -> set of ids still queued after a failed flush] ("retained" branch)
          ns,     \* sessions so far
          torn,   \* the file ends with a partial record (a write of the file stream itself failed half way)
          lockfree, last
vars == <<file, left, ns, torn, lockfree, last>>
sv == <<file, left, ns, torn, lockfree>>

Init == file = {} /\ left = [h \in Hnd |-> {}] /\ ns = 0 /\ torn = FALSE /\ lockfree = TRUE /\ last = [act |-> "init"]

Ids(s, a, b) == {<<s, j>> : j \in a..b}
WFaults(n) == {[f |-> "none", at |-> 0], [f |-> "begin", at |-> 0], [f |-> "end", at |-> 0]}
              \cup {[f |-> "body", at |-> j] : j \in 0..n}        \* user code raises after j puts
              \cup {[f |-> "enc", at |-> j] : j \in 1..n}         \* the value encoder raises at put j
              \cup {[f |-> "write", at |-> j] : j \in 1..n}       \* the backend write of item j raises
              \cup {[f |-> "stream", at |-> j] : j \in 1..n}      \* the file stream raises half way through record j (e.g. ENOSPC)
RFaults == {[f |-> "none", at |-> 0], [f |-> "begin", at |-> 0], [f |-> "end", at |-> 0], [f |-> "body", at |-> 0]}

Leak(flt) == "FlushFailureKeepsLock" \in Deviations /\ flt.f \in {"end", "begin"}

RSess(h, flt) ==
  /\ ns < MaxSess /\ lockfree
  /\ ns' = ns + 1 /\ UNCHANGED <<file, left, torn>>
  /\ lockfree' = ~Leak(flt)
  /\ last' = [act |-> "sess", h |-> h, kind |-> "r", n |-> 0, fault |-> flt.f, at |-> flt.at,
              out |-> IF flt.f = "none" THEN "ok" ELSE "Injected",
              seen |-> IF flt.f = "begin" THEN 0 ELSE Cardinality(file)]

WSess(h, n, flt) ==
  /\ ns < MaxSess /\ lockfree
  /\ LET s == ns + 1
         npre == CASE flt.f = "none"  -> n
                   [] flt.f = "end"   -> n
                   [] flt.f = "begin" -> 0
                   [] flt.f = "body"  -> flt.at
                   [] flt.f = "enc"   -> flt.at - 1
                   [] flt.f = "write" -> flt.at - 1
                   [] flt.f = "stream" -> flt.at - 1
         flushes == flt.f # "begin"                                  \* flush() runs in the finally clause
         rest == IF flt.f \in {"write", "stream"} /\ Buffered[h] THEN Ids(s, flt.at + 1, n) ELSE {}
     IN /\ ns' = s
        (* an append session that gets as far as opening the file discards a torn tail; a failing stream leaves one *)
        /\ torn' = IF flt.f = "stream" THEN TRUE ELSE IF flt.f = "begin" THEN torn ELSE FALSE
        /\ \E keep \in BOOLEAN :                                     \* leftovers of a failed flush: retained or dropped
             /\ file' = file \cup Ids(s, 1, npre) \cup (IF flushes THEN left[h] ELSE {})
             /\ left' = [left EXCEPT ![h] = IF keep THEN (IF flushes THEN rest ELSE @ \cup rest) ELSE {}]
             /\ (~keep => (rest # {} \/ left[h] # {}))
        /\ lockfree' = ~(Leak(flt) \/ ("FlushFailureKeepsLock" \in Deviations /\ flt.f = "write" /\ Buffered[h]))
        /\ last' = [act |-> "sess", h |-> h, kind |-> "w", n |-> n, fault |-> flt.f, at |-> flt.at,
                    out |-> IF flt.f = "none" THEN "ok" ELSE "Injected",
                    seen |-> IF flt.f = "begin" THEN 0 ELSE Cardinality(file)]

Next == \E h \in Hnd : \/ \E flt \in RFaults : RSess(h, flt)
                       \/ \E n \in 1..MaxPuts : \E flt \in WFaults(n) : WSess(h, n, flt)
Spec == Init /\ [][Next]_vars

Obs == [file |-> file, lockfree |-> lockfree, torn |-> torn]
LockAlwaysFree == lockfree
Monotone == [][file \subseteq file']_vars
H2 == {"h1", "h2"}
H3 == {"h1", "h2", "h3"}
Buf == [h \in H3 |-> h = "h2"]
DevNone == {}
DevLeak == {"FlushFailureKeepsLock"}
View == sv
=============================================================================
