------------------------------ MODULE UKVFile ------------------------------
(* Implementation-shaped model of molli/storage/ukvfile.py (raw layer of C02).*)
(*                                                                            *)
(* One file on one path; several handle objects (UKVFile instances) on it.    *)
(* One action per public call.  `n` models the (_eof,_last) cache that lets   *)
(* map_blocks() skip the rescan; `toc` the cached table of contents.          *)
(* Scope (DESIGN §3.4): a handle is opened writable only while no other       *)
(* handle is open, readers may overlap each other (this is what the           *)
(* collection layer's lock provides); mode "w" re-creation is not generated.  *)
EXTENDS Naturals, Sequences, FiniteSets, TLC
CONSTANTS Key, Val, KeyLen, ValLen,   \* abstract keys / values and their byte lengths
          Handle,                      \* handle objects
          Hdr, NoHdr, HdrLen,          \* header choices (h1,h2,b0), "no file", and len(h2)+len(b0) per choice
          MaxRecs,                     \* bound on records (state constraint lives in the action guard)
          WithTruncate, MaxGen,        \* growth beyond C02: truncate() empties the file (generation counter gen)
          Deviations                   \* named departures from the required behaviour (non-vacuity / findings)
VARIABLES file,   \* [exists, hdr, recs : Seq([k,v])]
          hs,     \* [Handle -> [mode : {"none","closed","r","a"}, toc : SUBSET Key, n : Nat, hdr]]
          last    \* observation: the call just made and its outcome (excluded from fingerprints by VIEW)
vars == <<file, hs, last>>
sv   == <<file, hs>>

KeysOf(recs)   == {recs[i].k : i \in 1..Len(recs)}
ValueOf(recs, k) == LET i == CHOOSE i \in 1..Len(recs) : recs[i].k = k IN recs[i].v
MapOf(recs)    == [k \in KeysOf(recs) |-> ValueOf(recs, k)]
OpenHandles    == {h \in Handle : hs[h].mode \in {"r", "a"}}
Writers        == {h \in Handle : hs[h].mode = "a"}

Init == /\ file = [exists |-> FALSE, hdr |-> NoHdr, recs |-> <<>>, gen |-> 0]
        /\ hs = [h \in Handle |-> [mode |-> "none", toc |-> {}, n |-> 0, g |-> 0, hdr |-> NoHdr]]
        /\ last = [act |-> "init", out |-> "ok"]

Note(a, o) == last' = a @@ [out |-> o]
Fail(a, o) == UNCHANGED sv /\ Note(a, o)

(* map_blocks(): skipped when the handle's cached end is still the end of the file.  `gen` counts truncations: *)
(* a cache taken before a truncation says nothing about the file (the code has no such counter and compares     *)
(* byte sizes only - deviation "SizeOnlyShortcut"; "NeverClearsToc" = a rescan adds to the old table).          *)
Mapped(h, forced) ==
  LET sameGen == hs[h].g = file.gen \/ "SizeOnlyShortcut" \in Deviations IN
  IF ~forced /\ sameGen /\ hs[h].n = Len(file.recs) /\ ~("StaleReopen" \in Deviations /\ hs[h].toc # {})
     THEN [toc |-> hs[h].toc, n |-> hs[h].n, g |-> hs[h].g]
     ELSE IF "StaleReopen" \in Deviations /\ hs[h].toc # {}
          THEN [toc |-> hs[h].toc, n |-> hs[h].n, g |-> hs[h].g]
          ELSE [toc |-> (IF "NeverClearsToc" \in Deviations THEN hs[h].toc ELSE {}) \cup KeysOf(file.recs),
                n |-> Len(file.recs), g |-> file.gen]

CanOpen(m) == IF m = "r" THEN Writers = {} ELSE OpenHandles = {}

(* UKVFile(path, mode="x", h1=, h2=, b0=)                                      *)
NewX(h, hd) ==
  LET a == [act |-> "newx", h |-> h, hdr |-> hd] IN
  /\ hs[h].mode = "none" /\ CanOpen("a")
  /\ IF file.exists THEN Fail(a, "FileExistsError")
     ELSE /\ file' = [exists |-> TRUE, hdr |-> hd, recs |-> <<>>, gen |-> 0]
          /\ hs' = [hs EXCEPT ![h] = [mode |-> "a", toc |-> {}, n |-> 0, g |-> 0, hdr |-> hd]]
          /\ Note(a, "ok")

(* UKVFile(path, mode=m) on a fresh object                                    *)
New(h, m) ==
  LET a == [act |-> "new", h |-> h, mode |-> m] IN
  /\ hs[h].mode = "none" /\ CanOpen(m)
  /\ IF ~file.exists THEN Fail(a, "FileNotFoundError")
     ELSE /\ hs' = [hs EXCEPT ![h] = [mode |-> m, hdr |-> file.hdr] @@ Mapped(h, TRUE)]
          /\ UNCHANGED file /\ Note(a, "ok")

(* h.open(m) on a closed handle: header re-read, map_blocks with the shortcut *)
Reopen(h, m) ==
  LET a == [act |-> "reopen", h |-> h, mode |-> m] IN
  /\ hs[h].mode = "closed" /\ CanOpen(m)
  /\ hs' = [hs EXCEPT ![h] = [mode |-> m, hdr |-> file.hdr] @@ Mapped(h, FALSE)]
  /\ UNCHANGED file /\ Note(a, "ok")

(* h.close() of an open handle (closing a handle that is already closed - in particular an unpickled one, *)
(* which has no stream - is not constrained by the property and not generated)                              *)
Close(h) ==
  /\ hs[h].mode \in {"r", "a"}
  /\ hs' = [hs EXCEPT ![h].mode = "closed"]
  /\ UNCHANGED file /\ Note([act |-> "close", h |-> h], "ok")

(* h.truncate() (growth beyond C02): every record is discarded; the handle's own table is emptied with it *)
Truncate(h) ==
  LET a == [act |-> "truncate", h |-> h] IN
  /\ WithTruncate /\ hs[h].mode = "a" /\ file.gen < MaxGen
  /\ file' = [file EXCEPT !.recs = <<>>, !.gen = @ + 1]
  /\ hs' = [hs EXCEPT ![h].toc = IF "TruncateKeepsToc" \in Deviations THEN @ ELSE {},
                      ![h].n = 0, ![h].g = file.gen + 1]
  /\ Note(a, "ok")

(* pickle.loads(pickle.dumps(h)) of a closed handle: the cached table of contents travels along *)
Pickle(h) ==
  /\ hs[h].mode = "closed"
  /\ UNCHANGED sv /\ Note([act |-> "pickle", h |-> h], "ok")

Put(h, k, v) ==
  LET a == [act |-> "put", h |-> h, k |-> k, v |-> v] IN
  /\ hs[h].mode # "none"
  /\ CASE hs[h].mode # "a" -> Fail(a, "UnsupportedOperation")
       [] hs[h].mode = "a" /\ k \in hs[h].toc -> Fail(a, "KeyError")
       [] hs[h].mode = "a" /\ k \notin hs[h].toc /\ KeyLen[k] > 255 ->
            IF "PhantomToc" \in Deviations
              THEN /\ hs' = [hs EXCEPT ![h].toc = @ \cup {k}] /\ UNCHANGED file /\ Note(a, "error")
              ELSE Fail(a, "error")
       [] OTHER -> /\ Len(file.recs) < MaxRecs
                   /\ file' = [file EXCEPT !.recs = Append(@, [k |-> k, v |-> v])]
                   /\ hs' = [hs EXCEPT ![h].toc = @ \cup {k}, ![h].n = @ + 1]
                   /\ Note(a, "ok")

Get(h, k) ==
  LET a == [act |-> "get", h |-> h, k |-> k] IN
  /\ hs[h].mode # "none"
  /\ CASE hs[h].mode = "closed" -> Fail(a, "UnsupportedOperation")
       [] hs[h].mode # "closed" /\ k \notin hs[h].toc -> Fail(a, "KeyError")
       [] OTHER -> UNCHANGED sv /\ last' = a @@ [out |-> "ok", val |-> ValueOf(file.recs, k)]

Next == \E h \in Handle :
          \/ \E hd \in Hdr : NewX(h, hd)
          \/ \E m \in {"r", "a"} : New(h, m) \/ Reopen(h, m)
          \/ Close(h) \/ Pickle(h) \/ Truncate(h)
          \/ \E k \in Key : Get(h, k) \/ \E v \in Val : Put(h, k, v)

Spec == Init /\ [][Next]_vars

---------------------------------------------------------------------------
(* Observable projection: what the public API of each handle shows, plus the  *)
(* independently parsed file.                                                 *)
HObs(h) == [mode |-> hs[h].mode, keys |-> hs[h].toc,
            hdr |-> IF hs[h].mode = "none" THEN NoHdr ELSE hs[h].hdr,
            gets |-> IF hs[h].mode \in {"r", "a"}
                       THEN [k \in hs[h].toc \cap KeysOf(file.recs) |-> ValueOf(file.recs, k)] ELSE <<>>]
Obs == [exists |-> file.exists, hdr |-> file.hdr, recs |-> {<<file.recs[i].k, file.recs[i].v>> : i \in 1..Len(file.recs)},
        h |-> [h \in Handle |-> HObs(h)]]

(* byte size of the file (header struct 32 bytes, block header 5 bytes) *)
RECURSIVE RecBytes(_)
RecBytes(rs) == IF rs = <<>> THEN 0 ELSE 5 + KeyLen[Head(rs).k] + ValLen[Head(rs).v] + RecBytes(Tail(rs))
Size == IF file.exists THEN 32 + HdrLen[file.hdr] + RecBytes(file.recs) ELSE 0

(* ----- properties (clauses of C02 on the raw layer) ----------------------- *)
TypeOK == /\ file.exists \in BOOLEAN
          /\ \A h \in Handle : hs[h].mode \in {"none", "closed", "r", "a"} /\ hs[h].toc \subseteq Key
NoDuplicateRecord == \A i, j \in 1..Len(file.recs) : file.recs[i].k = file.recs[j].k => i = j
TocSound      == \A h \in Handle : hs[h].toc \subseteq KeysOf(file.recs)          \* listed => really put
TocSoundG     == \A h \in Handle : (hs[h].g = file.gen \/ hs[h].mode \in {"r", "a"}) => hs[h].toc \subseteq KeysOf(file.recs)
TocComplete   == \A h \in OpenHandles : hs[h].toc = KeysOf(file.recs)             \* as of the last open + own puts
KeyLenOK      == \A i \in 1..Len(file.recs) : KeyLen[file.recs[i].k] <= 255
HandleHdrOK   == \A h \in Handle : hs[h].mode # "none" => hs[h].hdr = file.hdr
OneWriter     == Cardinality(Writers) <= 1 /\ (Writers # {} => OpenHandles = Writers)
FailedOpIsNoOp == [][last'.out # "ok" => sv' = sv]_vars
GetReturnsThePut == [][(last'.act = "get" /\ last'.out = "ok") => last'.val = MapOf(file.recs)[last'.k]]_vars
HeadersPreserved == [][file.exists => file'.exists /\ file'.hdr = file.hdr]_vars
RecordsImmutable == [][last'.act # "truncate" => \A i \in 1..Len(file.recs) : i <= Len(file'.recs) /\ file'.recs[i] = file.recs[i]]_vars
TruncateEmpties  == [][last'.act = "truncate" => (file'.recs = <<>> /\ hs'[last'.h].toc = {})]_vars

(* ----- refinement of the abstract insert-only map ------------------------- *)
KV == INSTANCE KVMap WITH store <- [exists |-> file.exists, hdr |-> file.hdr, map |-> MapOf(file.recs)], dummy <- 0,
                         AllowClear <- WithTruncate
Refines == KV!KVSpec
=============================================================================
