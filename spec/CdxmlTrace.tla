---------------------------- MODULE CdxmlTrace ----------------------------
(* Trace validation for C13 (batched, VERDICT idiom of DESIGN 2.2).  One trace = one CDXML file  *)
(* (a bundled file or a generated variant):                                                       *)
(*   Drawn    the abstract drawing produced by the independent ElementTree walk (always event 1)   *)
(*   Open     a new CDXMLFile object h and its keys()                                              *)
(*   Parsed   CDXMLFile[label] on object h: outcome and abstracted result                          *)
(*   Again    a repeated look-up, digests only                                                     *)
(*   Keys     keys()/len()/iteration made between look-ups                                         *)
(*   Mutated  the caller edited a molecule it had been given (hydrogens added, charge edited,      *)
(*            atom deleted, coordinates moved): later look-ups must not show it (content only:     *)
(*            whether a look-up returns a new object is recorded, never judged)                    *)
(*   Related  the result on this file next to the result of the same label on the file it was      *)
(*            generated from (rel = "mirror": stereo marks swapped; rel = "same": layout / ids /    *)
(*            order changed only), with the signed volumes of every centre in both models          *)
(* Every clause is evaluated by TLC with the operators of Cdxml; a trace is accepted iff every     *)
(* event is explained.  A STUCK verdict comes with a WHY line naming the broken clauses.           *)
EXTENDS Cdxml, Json, IOUtils, TLCExt
VARIABLES ti, l
tvars == <<vars, ti, l>>
Traces == ndJsonDeserialize(IOEnv.TRACE_FILE)
NT == Len(Traces)
Tr == Traces[ti].ev
Ev == Tr[l]
D  == Tr[1]
ToSet(s) == {s[i] : i \in 1..Len(s)}

(* guards: is event l explained?  (state predicates; the only variable that moves is memo) *)
GDrawn   == l = 1 /\ Ev.ev = "Drawn"
GOpen    == l > 1 /\ Ev.ev = "Open" /\ ToSet(Ev.keys) = LabelTexts(D)
(* keys() / len() / iteration between look-ups: always the labels of the drawing *)
GKeys    == l > 1 /\ Ev.ev = "Keys" /\ ToSet(Ev.keys) = LabelTexts(D) /\ Ev.n = Cardinality(LabelTexts(D))
(* the caller edited a molecule it had been given (public calls); the event only has to name such an object *)
GMutated == l > 1 /\ Ev.ev = "Mutated" /\ Ev.oid \in objs
GParsed  == l > 1 /\ Ev.ev = "Parsed" /\ Accepts(D, memo, objs, Ev.label, Ev.out, Ev.R)
AgainOK  == IF Ev.out = "ok"
              THEN Ev.label \in DOMAIN memo /\ Ev.fid = memo[Ev.label].fid /\ Ev.cdig = memo[Ev.label].cdig /\ Ev.gdig = memo[Ev.label].gdig
              ELSE Ev.label \notin DOMAIN memo
GAgain   == l > 1 /\ Ev.ev = "Again" /\ AgainOK
SameObs  == Ev.label \in DOMAIN memo /\ Ev.R.fid = memo[Ev.label].fid /\ Ev.R.cdig = memo[Ev.label].cdig /\ Ev.R.gdig = memo[Ev.label].gdig
RelBroken == BrokenRel(D.frags[Ev.R.fid], Ev.rel, Ev.base, Ev.R, Ev.keymap, ToSet(Ev.pairs))
GRelated == l > 1 /\ Ev.ev = "Related" /\ SameObs /\ RelBroken = {}
Explained == GDrawn \/ GOpen \/ GKeys \/ GMutated \/ GParsed \/ GAgain \/ GRelated

Why == CASE l = 1 -> {"FirstEventIsTheDrawing"}
         [] Ev.ev = "Parsed"  -> BrokenAll(D, memo, objs, Ev.label, Ev.out, Ev.R)
         [] Ev.ev = "Again"   -> {"Deterministic"}
         [] Ev.ev \in {"Open", "Keys"} -> {"KeysAreTheLabels"}
         [] Ev.ev = "Mutated" -> {"MutatedObjectWasHandedOut"}
         [] Ev.ev = "Related" -> IF SameObs THEN RelBroken ELSE {"NotTheValidatedResult"}
         [] OTHER -> {"UnknownEvent"}

Reset == /\ file' = 0 /\ cache' = Empty /\ memo' = Empty /\ nlook' = 0 /\ last' = [act |-> "init"] /\ objs' = {} /\ handed' = Empty
NextTrace == ti' = ti + 1 /\ l' = 1 /\ Reset
(* one event: either a step of Cdxml's property (memo remembers the first answer per label) or the verdict STUCK *)
Step == /\ ti <= NT /\ l <= Len(Tr)
        /\ IF Explained
             THEN /\ memo' = IF Ev.ev = "Parsed" /\ Ev.out = "ok" THEN Remember(memo, Ev.label, Ev.R) ELSE memo
                  /\ objs' = IF Ev.ev \in {"Parsed", "Again"} /\ Ev.out = "ok" THEN objs \cup {IF Ev.ev = "Parsed" THEN Ev.R.oid ELSE Ev.oid} ELSE objs
                  /\ UNCHANGED <<file, cache, nlook, last, handed>> /\ l' = l + 1 /\ ti' = ti
             ELSE /\ PrintT(<<"VERDICT", Traces[ti].tid, "STUCK", l>>)
                  /\ PrintT(<<"WHY", Traces[ti].tid, l, Why>>)
                  /\ NextTrace
Finish == /\ ti <= NT /\ l = Len(Tr) + 1
          /\ PrintT(<<"VERDICT", Traces[ti].tid, "ACCEPT">>)
          /\ NextTrace
TraceInit == /\ file = 0 /\ cache = Empty /\ memo = Empty /\ nlook = 0 /\ last = [act |-> "init"] /\ objs = {} /\ handed = Empty /\ ti = 1 /\ l = 1
TraceNext == Step \/ Finish
TraceSpec == TraceInit /\ [][TraceNext]_tvars
NoFiles == Empty
DevNone == {}
=============================================================================
