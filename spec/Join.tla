-------------------------------- MODULE Join --------------------------------
(* C12: Structure.join(A, B, apA, apB, ...) and the iterated join of          *)
(* `molli combine` (molli/chem/structure.py:465-596, scripts/combine.py).     *)
(*                                                                            *)
(* Part 1  data model and the CONTRACT of one join (what the property         *)
(*         demands of the returned molecule, relative to the two inputs);     *)
(*         this part is what the trace specification applies to executions    *)
(*         of the real code.                                                  *)
(* Part 2  the intended result of an iterated join on a multi-attachment core.*)
(* Part 3  an executable reference model shaped like the implementation       *)
(*         (atom filter, atom_map, index look-ups, rotation v2 -> -v1,        *)
(*         translation along v1, rotamer scan, `ap_i - shift`), on the        *)
(*         integer lattice so that TLC can compute geometry exactly.  Named   *)
(*         Deviations switch single steps to realistic wrong behaviours.      *)
(* Part 4  state machine (heap of structures, hidden RNG state, assembly) and *)
(*         the clauses of C12 as invariants / action properties.              *)
(*                                                                            *)
(* A structure value is                                                       *)
(*   [atoms : Seq(token), bonds : SUBSET [a, b : index, t : token] (a < b),   *)
(*    q, m : Int, X : Seq(<<x, y, z>>)]                                       *)
(* Atom order of the product is part of the contract (A's atoms, then B's,    *)
(* each in input order, attachment points dropped): `molli combine` addresses *)
(* atoms of an intermediate product by index.  Bonds are a set.               *)
(* Geometry never enters as floats: a `geo` value is [D, H] with D the matrix *)
(* of pairwise distances (integers: micro-Angstrom in traces, squared lattice *)
(* units in the model) and H the orientation sign (-1, 0, 1) of every         *)
(* ascending atom quadruple, H[i][j-i][k-j][l-k].                             *)
EXTENDS Integers, Sequences, FiniteSets, TLC
CONSTANTS Deviations,   \* named departures from the required behaviour
          Tol,          \* tolerance on D and X entries (same unit as the matrices)
          One,          \* the number 1 in the unit of q and m (1 in the model, 1000 in traces)
          FragPool,     \* model: name -> lattice structure
          Poses,        \* model: lattice rotations applied to B before the join
          ArgPool,      \* model: option records [L, opt, qo, mo, bt]
          AsmPool       \* model: assembly tasks [core, aps, subs : Seq([f, ap, pose])]
VARIABLES heap,   \* object name -> structure value
          prov,   \* product name -> the arguments of the join that made it
          rng,    \* hidden state (numpy's global RNG): the contract must not depend on it
          asm,    \* iterated join in progress
          last    \* observation (excluded from fingerprints by VIEW)
vars == <<heap, prov, rng, asm, last>>
sv   == <<heap, prov, rng, asm>>

(* ======================= Part 1: data model, contract ===================== *)
N(S)        == Len(S.atoms)
Touch(S, i) == {b \in S.bonds : b.a = i \/ b.b = i}
Deg(S, i)   == Cardinality(Touch(S, i))
Other(b, i) == IF b.a = i THEN b.b ELSE b.a
Nbr(S, i)   == Other(CHOOSE b \in Touch(S, i) : TRUE, i)
MkBond(i, j, t) == [a |-> IF i < j THEN i ELSE j, b |-> IF i < j THEN j ELSE i, t |-> t]
Shift(i, ap)    == IF i < ap THEN i ELSE i - 1          \* index after deleting position ap (i # ap)
Unshift(k, ap)  == IF k < ap THEN k ELSE k + 1
Abs(x)      == IF x < 0 THEN -x ELSE x
Near(x, y)  == Abs(x - y) <= Tol
Rng(s)      == {s[i] : i \in DOMAIN s}

(* join() is defined for attachment atoms with exactly one bond                *)
JoinPre(A, B, apA, apB) == /\ apA \in 1..N(A) /\ apB \in 1..N(B)
                           /\ Deg(A, apA) = 1 /\ Deg(B, apB) = 1

(* where the atoms of A and B are found in the product.  The slot of each      *)
(* attachment point maps to the other fragment's anchor atom: A "sees" B's     *)
(* anchor where its attachment point was pointing, and vice versa.             *)
PhiA(A, B, apA, apB) == [i \in 1..N(A) |-> IF i = apA THEN (N(A) - 1) + Shift(Nbr(B, apB), apB) ELSE Shift(i, apA)]
PhiB(A, B, apA, apB) == [j \in 1..N(B) |-> IF j = apB THEN Shift(Nbr(A, apA), apA) ELSE (N(A) - 1) + Shift(j, apB)]

ProdAtoms(A, B, apA, apB) ==
  [k \in 1..(N(A) + N(B) - 2) |-> IF k <= N(A) - 1 THEN A.atoms[Unshift(k, apA)]
                                                    ELSE B.atoms[Unshift(k - (N(A) - 1), apB)]]
ProdBonds(A, B, apA, apB, bt) ==
  LET fa == PhiA(A, B, apA, apB)  fb == PhiB(A, B, apA, apB) IN
  {MkBond(fa[b.a], fa[b.b], b.t) : b \in A.bonds \ Touch(A, apA)}
    \cup {MkBond(fb[b.a], fb[b.b], b.t) : b \in B.bonds \ Touch(B, apB)}
    \cup {MkBond(fa[Nbr(A, apA)], fb[Nbr(B, apB)], bt)}

(* --- clause: every atom and bond except the attachment points + one new bond *)
CProductConstitution(A, B, g, P) ==
  /\ P.atoms = ProdAtoms(A, B, g.apA, g.apB)
  /\ P.bonds = ProdBonds(A, B, g.apA, g.apB, g.bt)
  /\ Len(P.X) = Len(P.atoms)
(* --- clause: charge and multiplicity combine unless overridden (0 is a value) *)
CChargeMultRule(A, B, g, P) ==
  /\ P.q = (IF g.qo.g THEN g.qo.v ELSE A.q + B.q)
  /\ P.m = (IF g.mo.g THEN g.mo.v ELSE A.m + B.m - One)

(* --- geometry ------------------------------------------------------------- *)
Pairs(n) == UNION {{<<i, j>> : j \in (i + 1)..n} : i \in 1..n}
Quads(n) == UNION {UNION {UNION {{<<i, j, k, l>> : l \in (k + 1)..n} : k \in (j + 1)..n} : j \in (i + 1)..n} : i \in 1..n}
Inv4(q)  == Cardinality({p \in Pairs(4) : q[p[1]] > q[p[2]]})
Sorted4(q) == LET S == Rng(q) IN [r \in 1..4 |-> CHOOSE x \in S : Cardinality({y \in S : y < x}) = r - 1]
SgnAt(H, q) == LET s == Sorted4(q)
                   h == H[s[1]][s[2] - s[1]][s[3] - s[2]][s[4] - s[3]]
               IN IF Inv4(q) % 2 = 0 THEN h ELSE -h
GeoShaped(G, n) == /\ Len(G.D) = n /\ \A i \in 1..n : Len(G.D[i]) = n
                   /\ Len(G.H) = (IF n >= 4 THEN n - 3 ELSE 0)
(* gX: geometry of an input fragment whose attachment point has been pushed    *)
(* to the requested bond length along its own direction ("extended input");    *)
(* gP: geometry of the product; f: where the fragment's atoms are in it.       *)
RigidOn(gX, gP, f, ps) == \A p \in ps : Near(gP.D[f[p[1]]][f[p[2]]], gX.D[p[1]][p[2]])
HandOn(gX, gP, f, qs)  == \A q \in qs : LET s == SgnAt(gX.H, q) IN
                             s # 0 => SgnAt(gP.H, <<f[q[1]], f[q[2]], f[q[3]], f[q[4]]>>) = s
GeoReady(A, B, g, gA, gB, gP) ==
  /\ GeoShaped(gA, N(A)) /\ GeoShaped(gB, N(B)) /\ GeoShaped(gP, N(A) + N(B) - 2)
(* each fragment keeps its internal geometry ...                               *)
CKeepsShape(A, B, g, gA, gB, gP) ==
  /\ RigidOn(gA, gP, PhiA(A, B, g.apA, g.apB), {p \in Pairs(N(A)) : g.apA \notin Rng(p)})
  /\ RigidOn(gB, gP, PhiB(A, B, g.apA, g.apB), {p \in Pairs(N(B)) : g.apB \notin Rng(p)})
(* ... and handedness                                                          *)
CNotMirrored(A, B, g, gA, gB, gP) ==
  /\ HandOn(gA, gP, PhiA(A, B, g.apA, g.apB), {q \in Quads(N(A)) : g.apA \notin Rng(q)})
  /\ HandOn(gB, gP, PhiB(A, B, g.apA, g.apB), {q \in Quads(N(B)) : g.apB \notin Rng(q)})
(* the new bond has the requested length (gA.D[nbr][ap] is that length)        *)
CBondLength(A, B, g, gA, gB, gP) ==
  LET fa == PhiA(A, B, g.apA, g.apB) IN
  RigidOn(gA, gP, fa, {<<g.apA, Nbr(A, g.apA)>>})
(* ... and points along A's former attachment direction: B's anchor sits where *)
(* A's attachment point, pushed to the bond length, would be                   *)
CDirection(A, B, g, gA, gB, gP) ==
  LET fa == PhiA(A, B, g.apA, g.apB) IN
  /\ RigidOn(gA, gP, fa, {p \in Pairs(N(A)) : g.apA \in Rng(p) /\ Nbr(A, g.apA) \notin Rng(p)})
  /\ HandOn(gA, gP, fa, {q \in Quads(N(A)) : g.apA \in Rng(q)})
(* the same seen from B: its former attachment direction points at A's anchor  *)
CBackAligned(A, B, g, gA, gB, gP) ==
  LET fb == PhiB(A, B, g.apA, g.apB) IN
  /\ RigidOn(gB, gP, fb, {p \in Pairs(N(B)) : g.apB \in Rng(p)})
  /\ HandOn(gB, gP, fb, {q \in Quads(N(B)) : g.apB \in Rng(q)})

GeoContract(A, B, g, gA, gB, gP) ==
  /\ GeoReady(A, B, g, gA, gB, gP)
  /\ CKeepsShape(A, B, g, gA, gB, gP) /\ CNotMirrored(A, B, g, gA, gB, gP)
  /\ CBondLength(A, B, g, gA, gB, gP) /\ CDirection(A, B, g, gA, gB, gP)
  /\ CBackAligned(A, B, g, gA, gB, gP)
Contract(A, B, g, P, gA, gB, gP) ==
  /\ CProductConstitution(A, B, g, P) /\ CChargeMultRule(A, B, g, P)
  /\ GeoContract(A, B, g, gA, gB, gP)
(* names of the clauses that fail (diagnostics of the trace specification)     *)
FailedClauses(A, B, g, P, gA, gB, gP) ==
  IF ~CProductConstitution(A, B, g, P) THEN {"ProductConstitution"}
  ELSE (IF CChargeMultRule(A, B, g, P) THEN {} ELSE {"ChargeMultRule"}) \cup
       (IF ~GeoReady(A, B, g, gA, gB, gP) THEN {"GeoShape"} ELSE
          (IF CKeepsShape(A, B, g, gA, gB, gP) THEN {} ELSE {"KeepsShape"}) \cup
          (IF CNotMirrored(A, B, g, gA, gB, gP) THEN {} ELSE {"NotMirrored"}) \cup
          (IF CBondLength(A, B, g, gA, gB, gP) THEN {} ELSE {"BondLength"}) \cup
          (IF CDirection(A, B, g, gA, gB, gP) THEN {} ELSE {"Direction"}) \cup
          (IF CBackAligned(A, B, g, gA, gB, gP) THEN {} ELSE {"BackAligned"}))

(* the result does not depend on hidden state: same call => same molecule      *)
SameResult(P, Q) == /\ P.atoms = Q.atoms /\ P.bonds = Q.bonds /\ P.q = Q.q /\ P.m = Q.m
                    /\ Len(P.X) = Len(Q.X)
                    /\ \A k \in 1..Len(P.X) : \A c \in 1..3 : Near(P.X[k][c], Q.X[k][c])

(* ================= Part 2: intended result of an iterated join ============ *)
(* core K, attachment indices aps (any order, substituent i goes to aps[i]),   *)
(* substituents Ss with their own attachment indices saps                      *)
RECURSIVE SumTo(_, _)
SumTo(f, n) == IF n = 0 THEN 0 ELSE f[n] + SumTo(f, n - 1)
RECURSIVE Cat(_, _)
Cat(ss, n) == IF n = 0 THEN <<>> ELSE Cat(ss, n - 1) \o ss[n]
Without(s, drop) == LET Keep(i) == i \notin drop
                        idx == SelectSeq([i \in 1..Len(s) |-> i], Keep)
                    IN [k \in 1..Len(idx) |-> s[idx[k]]]
AsmPre(K, aps, Ss, saps) ==
  /\ Len(aps) = Len(Ss) /\ Len(saps) = Len(Ss)
  /\ \A i, j \in 1..Len(aps) : aps[i] = aps[j] => i = j
  /\ \A i \in 1..Len(aps) : /\ aps[i] \in 1..N(K) /\ Deg(K, aps[i]) = 1 /\ Nbr(K, aps[i]) \notin Rng(aps)
                            /\ saps[i] \in 1..N(Ss[i]) /\ Deg(Ss[i], saps[i]) = 1
Intended(K, aps, Ss, saps) ==
  LET n     == Len(aps)
      apset == Rng(aps)
      ShK(i) == i - Cardinality({a \in apset : a < i})
      nK    == N(K) - n
      Off(i) == nK + SumTo([j \in 1..n |-> N(Ss[j]) - 1], i - 1)
      ShS(i, j) == Off(i) + Shift(j, saps[i])
  IN [atoms |-> Without(K.atoms, apset) \o Cat([i \in 1..n |-> Without(Ss[i].atoms, {saps[i]})], n),
      bonds |-> {MkBond(ShK(b.a), ShK(b.b), b.t) : b \in {b \in K.bonds : b.a \notin apset /\ b.b \notin apset}}
                \cup UNION {{MkBond(ShS(i, b.a), ShS(i, b.b), b.t) : b \in Ss[i].bonds \ Touch(Ss[i], saps[i])} : i \in 1..n}
                \cup {MkBond(ShK(Nbr(K, aps[i])), ShS(i, Nbr(Ss[i], saps[i])), "Single") : i \in 1..n},
      q |-> K.q + SumTo([j \in 1..n |-> Ss[j].q], n),
      m |-> K.m + SumTo([j \in 1..n |-> Ss[j].m - One], n)]
SameConstitution(P, Q) == P.atoms = Q.atoms /\ P.bonds = Q.bonds /\ P.q = Q.q /\ P.m = Q.m

(* the index handed to the i-th join: every earlier join removed one atom;     *)
(* those that stood before aps[i] moved it down by one                         *)
ShiftIdx(aps, i) ==
  IF "NoIndexShift" \in Deviations THEN aps[i]
  ELSE IF "ShiftByPosition" \in Deviations THEN aps[i] - (i - 1)          \* pinned combine.py: ap_i - i
  ELSE aps[i] - Cardinality({j \in 1..(i - 1) : aps[j] < aps[i]})

(* ============ Part 3: executable reference model on the lattice =========== *)
VSub(u, v)   == <<u[1] - v[1], u[2] - v[2], u[3] - v[3]>>
VAdd(u, v)   == <<u[1] + v[1], u[2] + v[2], u[3] + v[3]>>
VScale(k, v) == <<k * v[1], k * v[2], k * v[3]>>
Dot(u, v)    == u[1] * v[1] + u[2] * v[2] + u[3] * v[3]
Cross(u, v)  == <<u[2] * v[3] - u[3] * v[2], u[3] * v[1] - u[1] * v[3], u[1] * v[2] - u[2] * v[1]>>
MulVM(x, M)  == <<x[1] * M[1][1] + x[2] * M[2][1] + x[3] * M[3][1],
                  x[1] * M[1][2] + x[2] * M[2][2] + x[3] * M[3][2],
                  x[1] * M[1][3] + x[2] * M[2][3] + x[3] * M[3][3]>>          \* row vector times matrix, as in the code
Det3(M)      == Dot(M[1], Cross(M[2], M[3]))
Transpose(M) == <<<<M[1][1], M[2][1], M[3][1]>>, <<M[1][2], M[2][2], M[3][2]>>, <<M[1][3], M[2][3], M[3][3]>>>>
Id3          == <<<<1, 0, 0>>, <<0, 1, 0>>, <<0, 0, 1>>>>
Perm3        == {p \in [1..3 -> 1..3] : {p[1], p[2], p[3]} = 1..3}
SignedPerms  == {<<<<IF p[1] = 1 THEN s[1] ELSE 0, IF p[1] = 2 THEN s[1] ELSE 0, IF p[1] = 3 THEN s[1] ELSE 0>>,
                   <<IF p[2] = 1 THEN s[2] ELSE 0, IF p[2] = 2 THEN s[2] ELSE 0, IF p[2] = 3 THEN s[2] ELSE 0>>,
                   <<IF p[3] = 1 THEN s[3] ELSE 0, IF p[3] = 2 THEN s[3] ELSE 0, IF p[3] = 3 THEN s[3] ELSE 0>>>>
                 : p \in Perm3, s \in [1..3 -> {-1, 1}]}
Rot24        == {M \in SignedPerms : Det3(M) = 1}       \* the proper rotations of the lattice
Refl24       == SignedPerms \ Rot24                      \* the improper ones
Dist2(u, v)  == Dot(VSub(u, v), VSub(u, v))
Sign(x)      == IF x > 0 THEN 1 ELSE IF x < 0 THEN -1 ELSE 0
GeoOf(X) ==
  LET n == Len(X) IN
  [D |-> [i \in 1..n |-> [j \in 1..n |-> Dist2(X[i], X[j])]],
   H |-> [i \in 1..(IF n >= 4 THEN n - 3 ELSE 0) |-> [dj \in 1..(n - 2 - i) |-> [dk \in 1..(n - 1 - i - dj) |->
           [dl \in 1..(n - i - dj - dk) |->
              Sign(Dot(VSub(X[i + dj], X[i]), Cross(VSub(X[i + dj + dk], X[i]), VSub(X[i + dj + dk + dl], X[i]))))]]]]]
(* the extended input: attachment point pushed to distance L (lattice: |v| = 1) *)
XPlus(S, ap, L) == [S.X EXCEPT ![ap] = VAdd(S.X[Nbr(S, ap)], VScale(L, VSub(S.X[ap], S.X[Nbr(S, ap)])))]
Posed(S, M, off) == [S EXCEPT !.X = [k \in 1..Len(S.X) |-> VAdd(MulVM(S.X[k], M), off)]]

(* rotation_matrix_from_vectors(v2, t): minimal rotation; for opposite vectors *)
(* the code turns about a perpendicular axis that it draws from numpy.random   *)
(* (deviation RngInAntiparallel); required: a choice that depends on nothing   *)
(* but the arguments.                                                          *)
RotFor(v2, t, r) ==
  LET pool == IF "ImproperRotation" \in Deviations THEN Refl24 ELSE Rot24 IN
  IF v2 = t /\ "ImproperRotation" \notin Deviations THEN Id3
  ELSE IF Dot(v2, t) = 0
       THEN CHOOSE M \in pool : MulVM(v2, M) = t /\ MulVM(Cross(v2, t), M) = Cross(v2, t)
       ELSE LET C  == {M \in pool : MulVM(v2, M) = t}
                M0 == CHOOSE M \in C : TRUE
            IN IF "RngInAntiparallel" \in Deviations /\ r # 0 /\ v2 # t THEN CHOOSE M \in C \ {M0} : TRUE ELSE M0
Score(c1, c2) == SumTo([k \in 1..(Len(c1) * Len(c2)) |->
                          Dist2(c1[((k - 1) % Len(c1)) + 1], c2[((k - 1) \div Len(c1)) + 1])], Len(c1) * Len(c2))
RotAll(c, M) == [k \in 1..Len(c) |-> MulVM(c[k], M)]

Impl(A, B, g, r) ==
  LET a1  == g.apA   a2 == g.apB   a1r == Nbr(A, a1)   a2r == Nbr(B, a2)
      NotA1(i) == i # a1
      NotA2(i) == "KeepsAttachmentPoint" \in Deviations \/ i # a2
      keepA == SelectSeq([i \in 1..N(A) |-> i], NotA1)
      keepB == SelectSeq([i \in 1..N(B) |-> i], NotA2)
      nA    == Len(keepA)
      src   == [k \in 1..(nA + Len(keepB)) |-> IF k <= nA THEN <<"A", keepA[k]>> ELSE <<"B", keepB[k - nA]>>]
      IndexOf(side, i) == CHOOSE k \in DOMAIN src : src[k] = <<side, i>>            \* atoms.index(...) / atom_map
      n1    == IF "NeighbourIndexNotShifted" \in Deviations THEN a1r ELSE IndexOf("A", a1r)
      n2    == IF "NeighbourIndexNotShifted" \in Deviations THEN nA + a2r ELSE IndexOf("B", a2r)
      qsum  == A.q + B.q
      msum  == A.m + B.m - One
      UseO(o) == o.g /\ ("OverrideZeroIgnored" \notin Deviations \/ o.v # 0)         \* `charge or ...`
      v1    == VSub(A.X[a1], A.X[a1r])
      v2    == VSub(B.X[a2], B.X[a2r])
      R0    == RotFor(v2, VScale(-1, v1), r)
      R     == IF "RotationTransposed" \in Deviations THEN Transpose(R0) ELSE R0
      Lx    == IF "LengthIgnored" \in Deviations THEN 1 ELSE g.L
      tr    == VScale(IF "TranslateBackwards" \in Deviations THEN -Lx ELSE Lx, v1)
      c1    == [k \in 1..nA |-> VSub(A.X[keepA[k]], A.X[a1r])]
      c2    == [k \in 1..Len(keepB) |-> VAdd(MulVM(VSub(B.X[keepB[k]], B.X[a2r]), R), tr)]
      Turns == {M \in Rot24 : MulVM(v1, M) = v1}
      best  == CHOOSE M \in Turns : \A M2 \in Turns : Score(c1, RotAll(c2, M)) >= Score(c1, RotAll(c2, M2))
      c2o   == IF g.opt THEN RotAll(c2, best) ELSE c2
  IN [atoms |-> [k \in DOMAIN src |-> IF src[k][1] = "A" THEN A.atoms[src[k][2]] ELSE B.atoms[src[k][2]]],
      bonds |-> {MkBond(IndexOf("A", b.a), IndexOf("A", b.b), b.t) : b \in {b \in A.bonds : a1 \notin {b.a, b.b}}}
                \cup {MkBond(IndexOf("B", b.a), IndexOf("B", b.b), b.t) : b \in {b \in B.bonds : a2 \notin {b.a, b.b}}}
                \cup {MkBond(n1, n2, g.bt)},
      q |-> IF UseO(g.qo) THEN g.qo.v ELSE qsum,
      m |-> IF UseO(g.mo) THEN g.mo.v ELSE msum,
      X |-> c1 \o c2o]

(* ========================= Part 4: state machine ========================== *)
Idle == [on |-> FALSE]
Init == /\ heap = <<>> /\ prov = <<>> /\ rng = 0 /\ asm = Idle /\ last = [act |-> "init"]

Make(o, S) == /\ o \notin DOMAIN heap
              /\ heap' = heap @@ (o :> S)
              /\ UNCHANGED <<prov, rng, asm>> /\ last' = [act |-> "make", o |-> o]
Perturb(r) == /\ r # rng /\ rng' = r /\ UNCHANGED <<heap, prov, asm>> /\ last' = [act |-> "perturb", r |-> r]
(* a join whose result P is known (computed by Impl in the model, observed in  *)
(* a trace); join() must leave every existing object alone                     *)
Record(o, g, P) ==
  /\ o \notin DOMAIN heap /\ g.a \in DOMAIN heap /\ g.b \in DOMAIN heap
  /\ JoinPre(heap[g.a], heap[g.b], g.apA, g.apB)
  /\ heap' = (IF "MutatesInput" \in Deviations
                THEN [heap EXCEPT ![g.a].bonds = @ \ Touch(heap[g.a], g.apA)] ELSE heap) @@ (o :> P)
  /\ prov' = prov @@ (o :> g)
  /\ UNCHANGED rng /\ last' = [act |-> "join", o |-> o, g |-> g]
DoJoin(o, g) == Record(o, g, Impl(heap[g.a], heap[g.b], g, rng)) /\ UNCHANGED asm

MkArgs(a, b, apA, apB, o) == [a |-> a, b |-> b, apA |-> apA, apB |-> apB] @@ o
Offset == <<3, -2, 5>>
ModelMake == \/ \E f \in DOMAIN FragPool : Make("A", FragPool[f])
             \/ \E f \in DOMAIN FragPool, M \in Poses : Make("B", Posed(FragPool[f], M, Offset))
ModelJoin ==
  /\ ~asm.on /\ {"A", "B"} \subseteq DOMAIN heap
  /\ \/ /\ "P1" \notin DOMAIN heap
        /\ \E apA \in 1..N(heap["A"]), apB \in 1..N(heap["B"]), o \in ArgPool :
              DoJoin("P1", MkArgs("A", "B", apA, apB, o))
     \/ /\ "P1" \in DOMAIN heap /\ DoJoin("P2", prov["P1"])              \* the same call again, later
DName == <<"D1", "D2", "D3", "D4">>
SName == <<"S1", "S2", "S3", "S4">>
AsmBegin(t) ==
  /\ heap = <<>> /\ ~asm.on
  /\ heap' = ("K" :> FragPool[t.core]) @@
             [o \in {SName[i] : i \in 1..Len(t.subs)} |->
                LET i == CHOOSE i \in 1..Len(t.subs) : SName[i] = o IN Posed(FragPool[t.subs[i].f], t.subs[i].pose, Offset)]
  /\ asm' = [on |-> TRUE, core |-> "K", aps |-> t.aps, subs |-> [i \in 1..Len(t.subs) |-> SName[i]],
             saps |-> [i \in 1..Len(t.subs) |-> t.subs[i].ap], i |-> 1, cur |-> "K", failed |-> FALSE, done |-> FALSE]
  /\ UNCHANGED <<prov, rng>> /\ last' = [act |-> "asm-begin", t |-> t]
AsmStep ==
  /\ asm.on /\ ~asm.done /\ asm.i <= Len(asm.aps)
  /\ LET i == asm.i
         g == [a |-> asm.cur, b |-> asm.subs[i], apA |-> ShiftIdx(asm.aps, i), apB |-> asm.saps[i],
               L |-> 1, opt |-> TRUE, qo |-> [g |-> FALSE, v |-> 0], mo |-> [g |-> FALSE, v |-> 0], bt |-> "Single"]
     IN IF JoinPre(heap[g.a], heap[g.b], g.apA, g.apB)
          THEN /\ Record(DName[i], g, Impl(heap[g.a], heap[g.b], g, rng))
               /\ asm' = [asm EXCEPT !.i = i + 1, !.cur = DName[i]]
          ELSE /\ asm' = [asm EXCEPT !.i = Len(asm.aps) + 1, !.failed = TRUE]     \* join() refuses: AssertionError
               /\ UNCHANGED <<heap, prov, rng>> /\ last' = [act |-> "join-refused", g |-> g]
AsmEnd == /\ asm.on /\ ~asm.done /\ asm.i = Len(asm.aps) + 1
          /\ asm' = [asm EXCEPT !.done = TRUE]
          /\ UNCHANGED <<heap, prov, rng>> /\ last' = [act |-> "asm-end", o |-> asm.cur]
Next == \/ ModelMake \/ ModelJoin \/ Perturb(1 - rng)
        \/ (\E t \in AsmPool : AsmBegin(t)) \/ AsmStep \/ AsmEnd
Spec == Init /\ [][Next]_vars

(* ---------------------------- the clauses of C12 --------------------------- *)
ForProducts(C(_, _, _, _, _, _, _)) ==
  \A o \in DOMAIN prov :
    LET g == prov[o]  A == heap[g.a]  B == heap[g.b]  P == heap[o] IN
    JoinPre(A, B, g.apA, g.apB) =>
      /\ Len(P.X) = N(A) + N(B) - 2
      /\ C(A, B, g, P, GeoOf(XPlus(A, g.apA, g.L)), GeoOf(XPlus(B, g.apB, g.L)), GeoOf(P.X))
C3(A, B, g, P, gA, gB, gP) == CKeepsShape(A, B, g, gA, gB, gP)
C4(A, B, g, P, gA, gB, gP) == CNotMirrored(A, B, g, gA, gB, gP)
C5(A, B, g, P, gA, gB, gP) == CBondLength(A, B, g, gA, gB, gP)
C6(A, B, g, P, gA, gB, gP) == CDirection(A, B, g, gA, gB, gP)
C7(A, B, g, P, gA, gB, gP) == CBackAligned(A, B, g, gA, gB, gP)
ProductConstitution == \A o \in DOMAIN prov : LET g == prov[o] IN
                         JoinPre(heap[g.a], heap[g.b], g.apA, g.apB) => CProductConstitution(heap[g.a], heap[g.b], g, heap[o])
ChargeMultRule      == \A o \in DOMAIN prov : LET g == prov[o] IN
                         JoinPre(heap[g.a], heap[g.b], g.apA, g.apB) => CChargeMultRule(heap[g.a], heap[g.b], g, heap[o])
KeepsShape          == ForProducts(C3)
NotMirrored         == ForProducts(C4)
BondLength          == ForProducts(C5)
Direction           == ForProducts(C6)
BackAligned         == ForProducts(C7)
CG(A, B, g, P, gA, gB, gP) == GeoContract(A, B, g, gA, gB, gP)
GeometryClauses     == ForProducts(CG)      \* the five geometric clauses at once (one evaluation of the geometry)
Functional          == \A o1, o2 \in DOMAIN prov : prov[o1] = prov[o2] => SameResult(heap[o1], heap[o2])
InputsUntouched     == [][\A o \in DOMAIN heap : heap'[o] = heap[o]]_vars
IndexShiftCorrect   ==
  (asm.on /\ asm.done) =>
     /\ ~asm.failed
     /\ SameConstitution(heap[asm.cur],
                         Intended(heap[asm.core], asm.aps, [i \in 1..Len(asm.subs) |-> heap[asm.subs[i]]], asm.saps))
=============================================================================
