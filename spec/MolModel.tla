------------------------------ MODULE MolModel ------------------------------
(* Abstract value domain of molli's chemical objects, as far as C01 (library   *)
(* round trip) talks about them, and the relation "reads back as the same      *)
(* object" that C01 demands.                                                   *)
(*                                                                             *)
(* An abstract object is a record                                              *)
(*   [kind, name, charge, mult, attrib, atoms, bonds,                          *)
(*    nconf, coords, charges, weights, cshape, qshape, wshape]                 *)
(*   kind    "Molecule" | "ConformerEnsemble"                                  *)
(*   atoms   Seq [el, iso, label, atype, stereo, geom, fc, fs, attrib]         *)
(*   bonds   Seq [a1, a2, label, btype, stereo, fo, attrib]   a1, a2 = 0-based *)
(*           positions in `atoms` (order of the two ends is part of the value) *)
(*   coords  frames x atoms x 3, charges frames x atoms, weights per frame     *)
(*           (a Molecule has exactly one frame and no weights)                 *)
(*   cshape, qshape, wshape: the shapes of the three arrays as the public      *)
(*           accessors report them                                             *)
(* Scalars are tokens (strings): "none", "i:<int>", "s:<text>", "y:<hex>",      *)
(* "b:0|1"; enum members are named by their integer value.                     *)
(* A float is a record [d, s, e]: d names the double, s names its float32      *)
(* rounding, e names that rounding widened to a double again.  "Equal to at    *)
(* least single precision" is equality of s; "the same" is equality of d.      *)
(* An attribute dictionary is the preorder list of its entries [p, k, d, s, e]:*)
(* p = path, k in {"map","seq","float","val","nd"}; for a map d = number of    *)
(* keys and s = "str" | "nonstr" (are all keys text?), for a seq d = length,   *)
(* for a float d,s,e as above, else d = token of the value.                    *)
EXTENDS Naturals, Sequences, FiniteSets, TLC

(* ----- floats ---------------------------------------------------------------*)
SameSingle(a, b) == a.s = b.s          \* equal after rounding both to float32
SameExact(a, b)  == a.d = b.d          \* the same double
F32(f)           == [d |-> f.e, s |-> f.s, e |-> f.e]      \* one float32 rounding, widened back
IsHugeForSingle(f) == f.s \in {"7f800000", "ff800000"} /\ f.d \notin {"7ff0000000000000", "fff0000000000000"}

Seq1Same(a, b, Eq(_, _)) == Len(a) = Len(b) /\ \A i \in 1..Len(a) : Eq(a[i], b[i])
Seq2Same(a, b, Eq(_, _)) == Len(a) = Len(b) /\ \A i \in 1..Len(a) : Seq1Same(a[i], b[i], Eq)
Seq3Same(a, b, Eq(_, _)) == Len(a) = Len(b) /\ \A i \in 1..Len(a) : Seq2Same(a[i], b[i], Eq)

(* ----- attributes -----------------------------------------------------------*)
(* same keys, same nesting (list == tuple), same leaves; float leaves the same *)
(* DOUBLE: an attribute is data of the user (energies!), not a coordinate      *)
EntrySame(a, b) == a.p = b.p /\ a.k = b.k /\ a.d = b.d /\ (a.k = "map" => a.s = b.s)
AttrSame(a, b)  == Seq1Same(a, b, EntrySame)
EmptyAttr       == <<[p |-> "", k |-> "map", d |-> "i:0", s |-> "str", e |-> ""]>>
IsEmptyAttr(a)  == Len(a) = 1 /\ a[1].k = "map" /\ a[1].d = "i:0"
AttrOK(a)       == Len(a) >= 1 /\ a[1].k = "map" /\ a[1].p = ""

(* ----- atoms and bonds ------------------------------------------------------*)
AtomSame(a, b) == /\ a.el = b.el /\ a.iso = b.iso /\ a.label = b.label /\ a.atype = b.atype
                  /\ a.stereo = b.stereo /\ a.geom = b.geom /\ a.fc = b.fc /\ a.fs = b.fs
                  /\ AttrSame(a.attrib, b.attrib)
BondSame(a, b) == /\ a.a1 = b.a1 /\ a.a2 = b.a2 /\ a.label = b.label /\ a.btype = b.btype
                  /\ a.stereo = b.stereo /\ SameExact(a.fo, b.fo) /\ AttrSame(a.attrib, b.attrib)

(* ----- whole objects --------------------------------------------------------*)
NAtoms(x) == Len(x.atoms)
IsEns(x)  == x.kind = "ConformerEnsemble"

(* internal consistency of an abstract object (what the public constructors guarantee) *)
WellFormed(x) ==
  /\ x.kind \in {"Molecule", "ConformerEnsemble"}
  /\ AttrOK(x.attrib)
  /\ \A i \in 1..Len(x.atoms) : AttrOK(x.atoms[i].attrib)
  /\ \A i \in 1..Len(x.bonds) : /\ x.bonds[i].a1 \in 0..(NAtoms(x) - 1) /\ x.bonds[i].a2 \in 0..(NAtoms(x) - 1)
                                /\ AttrOK(x.bonds[i].attrib)
  /\ Len(x.coords) = x.nconf /\ Len(x.charges) = x.nconf
  /\ \A c \in 1..x.nconf : /\ Len(x.coords[c]) = NAtoms(x) /\ Len(x.charges[c]) = NAtoms(x)
                           /\ \A i \in 1..NAtoms(x) : Len(x.coords[c][i]) = 3
  /\ IF IsEns(x)
       THEN /\ Len(x.weights) = x.nconf
            /\ x.cshape = <<x.nconf, NAtoms(x), 3>> /\ x.qshape = <<x.nconf, NAtoms(x)>> /\ x.wshape = <<x.nconf>>
       ELSE /\ x.nconf = 1 /\ x.weights = <<>>
            /\ x.cshape = <<NAtoms(x), 3>> /\ x.qshape = <<NAtoms(x)>> /\ x.wshape = <<>>

(* C01: r is an acceptable read-back of the written object w *)
Same(w, r) ==
  /\ r.kind = w.kind /\ r.name = w.name /\ r.charge = w.charge /\ r.mult = w.mult
  /\ AttrSame(w.attrib, r.attrib)
  /\ Seq1Same(w.atoms, r.atoms, AtomSame)                  \* same atoms, same order
  /\ Seq1Same(w.bonds, r.bonds, BondSame)                  \* same bonds, same order, same ends
  /\ r.nconf = w.nconf                                     \* conformer count
  /\ r.cshape = w.cshape /\ r.qshape = w.qshape /\ r.wshape = w.wshape    \* array shapes
  /\ Seq3Same(w.coords, r.coords, SameSingle)              \* coordinates, single precision
  /\ Seq2Same(w.charges, r.charges, SameSingle)            \* partial charges
  /\ Seq1Same(w.weights, r.weights, SameSingle)            \* conformer weights
=============================================================================
