----------------------------- MODULE MCJobBind -----------------------------
EXTENDS JobBind, Json
D3 == {"d1", "d2", "d3"}
D2 == {"d1", "d2"}
ExeM == [d \in D3 |-> [c \in 0..1 |-> IF c = 1 THEN "exeZ" ELSE CASE d = "d1" -> "exeA" [] d = "d2" -> "exeB" [] d = "d3" -> "exeC"]]
NPM  == [d \in D3 |-> [c \in 0..1 |-> IF c = 1 THEN 7 ELSE CASE d = "d1" -> 1 [] d = "d2" -> 4 [] d = "d3" -> 16]]
EnvM == [d \in D3 |-> [c \in 0..1 |-> IF c = 1 THEN {"Z=9"} ELSE CASE d = "d1" -> {"A=1"} [] d = "d2" -> {"B=2"} [] d = "d3" -> {}]]
DevNone == {}
DevShared == {"SharedDescriptor"}
DevFrozen == {"FrozenAtFirstUse"}
View == sv
Emit == PrintT(ToJson([from |-> sv, act |-> last', to |-> sv', obs |-> Obs']))
=============================================================================
