----------------------------- MODULE MCBackend -----------------------------
EXTENDS Backend, Json
KeysQ == {"k1", "k2", "kBig"}
KeysT == {"k1", "k2", "kBig", "k255", "kUni"}
KeysU == {"k1", "k2", "kUni"}     \* kUni: 128 characters that encode to 256 bytes
KLen  == [k \in KeysT |-> CASE k = "k1" -> 2 [] k = "k2" -> 2 [] k = "kBig" -> 256 [] k = "k255" -> 255 [] k = "kUni" -> 256]
ValsQ == {"vE", "v1"}
ValsT == {"vE", "v1", "v70k"}
VLen  == [v \in ValsT |-> CASE v = "vE" -> 0 [] v = "v1" -> 3 [] v = "v70k" -> 70000]
C2    == {"c1", "c2"}
C3    == {"c1", "c2", "c3"}
ROrw  == [c \in C3 |-> FALSE]
ROmix == [c \in C3 |-> c = "c2"]
BufM1 == [c \in C3 |-> -1]
Buf0  == [c \in C3 |-> 0]
BufS  == [c \in C3 |-> 6]
BufL  == [c \in C3 |-> 100000]
BufMix == [c \in C3 |-> CASE c = "c1" -> 6 [] c = "c2" -> -1 [] c = "c3" -> 100000]
HdrQ  == {"hdDef", "hdFull"}
DevNone == {}
DevPhantom == {"PhantomKey"}
DevQueue == {"QueueNotReadable"}
DevLate == {"LateDuplicate"}
View == sv
Emit == PrintT(ToJson([from |-> sv, act |-> last', to |-> sv', obs |-> Obs']))
=============================================================================
