------------------------------- MODULE MolHeap -------------------------------
(* C06: copies are faithful and independent.                                  *)
(* A heap of objects; each object of kind k has a set of CELLS (its mutable   *)
(* parts: attribute dictionaries of the object / first atom / first bond and   *)
(* their nested values, label, bond type, coordinate array, charge array,      *)
(* weights, atom list).  cnt[o][c] counts the mutations the value of cell c    *)
(* has seen (the harness stores the same counter in the real cell).  grp[o][c] *)
(* says which storage the cell lives in: two objects whose cell has the same   *)
(* group share mutable state.  Required: a copy has fresh groups for every     *)
(* cell (a Conformer is a VIEW and shares all groups with its ensemble).       *)
EXTENDS Naturals, Sequences, FiniteSets, TLC
CONSTANTS Kinds, CellsOf,       \* CellsOf : [Kinds -> SUBSET Cell]
          Cell, CellIndex,      \* CellIndex : injective [Cell -> 1..|Cell|]
          Routes,               \* set of [r, from, to] copy routes
          MaxObj, MaxMut, Deviations
VARIABLES objs,    \* Seq of [kind, cnt : [Cell -> Nat], grp : [Cell -> Nat], view : 0 or index of the ensemble viewed]
          ngrp, nmut, last
vars == <<objs, ngrp, nmut, last>>
sv == <<objs, ngrp, nmut>>
N == Len(objs)

Init == objs = <<>> /\ ngrp = 0 /\ nmut = 0 /\ last = [act |-> "init"]

(* a distinct group number per (object, cell): base .. base + |Cell| - 1 via an arbitrary fixed enumeration *)
Grp(base) == [c \in Cell |-> base + CellIndex[c]]
NC == Cardinality(Cell)

Make(k) == /\ N < MaxObj /\ k \in Kinds /\ k # "Conformer"
           /\ Len(SelectSeq(objs, LAMBDA o : o.view = 0 /\ o.src = 0)) < 2
           /\ objs' = Append(objs, [kind |-> k, cnt |-> [c \in Cell |-> 0], grp |-> Grp(ngrp), view |-> 0, src |-> 0])
           /\ ngrp' = ngrp + NC /\ UNCHANGED nmut
           /\ last' = [act |-> "make", kind |-> k, equal |-> TRUE]

EmptyOperandRoutes == {"or_e1", "or_e2", "concat_e1", "concat_e2"}     \* a | empty, empty | a, concatenate(a, empty), concatenate(empty, a)
(* cells that the deviation makes a copy share with its source *)
SharedBy(r) == IF "SharedAttribOnEvolve" \in Deviations /\ r \in {"construct", "concat", "or", "join", "upcast", "ensemble_from", "extend_empty", "extend_list_empty", "append_empty"} \cup EmptyOperandRoutes
                 THEN {"atomattr", "atomattr_e", "atomnest", "bondattr", "bondattr_e", "molnest"} ELSE {}

(* cells of a product of TWO sources that are not defined by the first one: object-level attributes; for a join also the  *)
(* second bond (the first fragment's bond to its attachment point is gone, the product's second bond is the other's)      *)
NotInherited(r) == CASE r \in {"concat", "or"} \cup EmptyOperandRoutes -> {"molattr", "molnest"}
                     [] r = "join"   -> {"molattr", "molnest", "bondattr_e"}
                     [] OTHER        -> {}

Copy(rt, i) ==
  /\ N < MaxObj /\ i \in 1..N /\ rt \in Routes /\ rt.from = objs[i].kind
  /\ \E keep2 \in (IF rt.r = "join" THEN BOOLEAN ELSE {FALSE}) :      \* join: the product's second bond is the source's second bond
     LET shared == SharedBy(rt.r)                                     \* unless that one led to the attachment point that was cut off
         g == Grp(ngrp)
         inherits(c) == /\ c \in CellsOf[rt.to] \cap CellsOf[rt.from]
                        /\ (c \notin NotInherited(rt.r) \/ (c = "bondattr_e" /\ keep2))
                        /\ ~("DropCharges" \in Deviations /\ c = "chg" /\ rt.r \in {"construct", "concat", "join", "concat_e1", "concat_e2"})
     IN objs' = Append(objs, [kind |-> rt.to,
                              cnt  |-> [c \in Cell |-> IF inherits(c) THEN objs[i].cnt[c] ELSE 0],
                              grp  |-> [c \in Cell |-> IF c \in shared THEN objs[i].grp[c] ELSE g[c]],
                              view |-> 0, src |-> i])
  /\ ngrp' = ngrp + NC /\ UNCHANGED nmut
  /\ last' = [act |-> "copy", route |-> rt.r, i |-> i, to |-> rt.to, equal |-> TRUE]

(* ens[0]: a live view, shares every cell with its ensemble *)
ViewOf(i) ==
  /\ N < MaxObj /\ i \in 1..N /\ objs[i].kind = "ConformerEnsemble"
  /\ objs' = Append(objs, [kind |-> "Conformer", cnt |-> objs[i].cnt, grp |-> objs[i].grp, view |-> i, src |-> i])
  /\ UNCHANGED <<ngrp, nmut>>
  /\ last' = [act |-> "view", i |-> i, equal |-> TRUE]

(* a mutation of cell c through object i: every object whose cell c lives in the same storage sees it *)
Mutate(i, c) ==
  /\ i \in 1..N /\ c \in CellsOf[objs[i].kind] /\ nmut < MaxMut
  /\ objs' = [j \in 1..N |-> IF objs[j].grp[c] = objs[i].grp[c] /\ c \in CellsOf[objs[j].kind]
                              THEN [objs[j] EXCEPT !.cnt[c] = @ + 1] ELSE objs[j]]
  /\ nmut' = nmut + 1 /\ UNCHANGED ngrp
  /\ last' = [act |-> "mutate", i |-> i, cell |-> c, others |-> TRUE]   \* nothing else about any other object changes

Next == \/ \E k \in Kinds : Make(k)
        \/ \E rt \in Routes, i \in 1..MaxObj : Copy(rt, i)
        \/ \E i \in 1..MaxObj : ViewOf(i)
        \/ \E i \in 1..MaxObj, c \in Cell : Mutate(i, c)
Spec == Init /\ [][Next]_vars

Obs == [j \in 1..N |-> [c \in CellsOf[objs[j].kind] |-> objs[j].cnt[c]]]

(* ----- clauses of C06 ------------------------------------------------------ *)
IsViewPair(i, j) == objs[i].view = j \/ objs[j].view = i \/ (objs[i].view # 0 /\ objs[i].view = objs[j].view)
NoSharedCell == \A i, j \in 1..N : (i # j /\ ~IsViewPair(i, j)) =>
                   \A c \in CellsOf[objs[i].kind] \cap CellsOf[objs[j].kind] : objs[i].grp[c] # objs[j].grp[c]
Independent == [][last'.act = "mutate" =>
                    \A j \in 1..N : (j # last'.i /\ ~IsViewPair(j, last'.i)) => objs'[j].cnt = objs[j].cnt]_vars
CopyEqual == [][last'.act = "copy" =>
                  \A c \in (CellsOf[objs'[N + 1].kind] \cap CellsOf[objs[last'.i].kind]) \ NotInherited(last'.route) :
                      objs'[N + 1].cnt[c] = objs[last'.i].cnt[c]]_vars
ViewWritesThrough == [][last'.act = "mutate" =>
                          \A j \in 1..N : IsViewPair(j, last'.i) /\ last'.cell \in CellsOf[objs[j].kind]
                                           => objs'[j].cnt[last'.cell] = objs[j].cnt[last'.cell] + 1]_vars
=============================================================================
