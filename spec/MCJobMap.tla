------------------------------ MODULE MCJobMap ------------------------------
EXTENDS JobMap, Json
K2 == {"m1", "m2"}
K3 == {"m1", "m2", "m3"}
F1 == {"zz"}
\* outcomes of one execution: ok | fail (exit status 3) | omit (exit 0 without the return file) | killed (the command writes
\* a partial return file and is killed by a signal; a second command of the same job would succeed)
ScriptsQ == {<<"ok">>, <<"fail", "ok">>, <<"omit", "ok">>, <<"fail">>, <<"ok", "fail">>, <<"ok", "omit">>, <<"killed", "ok">>}
ScriptsV == {<<"ok">>, <<"fail", "ok">>, <<"omit">>, <<"ok", "fail">>}
ScriptsVK == {<<"ok">>, <<"fail", "ok">>, <<"omit">>, <<"ok", "fail">>, <<"killed">>}      \* thorough tier
V2 == {1, 2}
DevNone == {}
DevReuseFailed == {"ReuseFailed"}
DevReuseStale == {"ReuseStale"}
DevRedo == {"RedoExisting"}
DevStoreFailed == {"StoreFailed"}
View == sv
Emit == PrintT(ToJson([from |-> sv, act |-> last', to |-> sv', obs |-> Obs']))
=============================================================================
