------------------------------ MODULE MCJobMap ------------------------------
EXTENDS JobMap, Json
K2 == {"m1", "m2"}
K3 == {"m1", "m2", "m3"}
F1 == {"zz"}
ScriptsQ == {<<"ok">>, <<"fail", "ok">>, <<"omit", "ok">>, <<"fail">>, <<"ok", "fail">>, <<"ok", "omit">>}
ScriptsV == {<<"ok">>, <<"fail", "ok">>, <<"omit">>, <<"ok", "fail">>}
V2 == {1, 2}
DevNone == {}
DevReuseFailed == {"ReuseFailed"}
DevReuseStale == {"ReuseStale"}
DevRedo == {"RedoExisting"}
DevStoreFailed == {"StoreFailed"}
View == sv
Emit == PrintT(ToJson([from |-> sv, act |-> last', to |-> sv', obs |-> Obs']))
=============================================================================
