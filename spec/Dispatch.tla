------------------------------ MODULE Dispatch ------------------------------
(* C09: every public load / dump entry point agrees with the class-level codec. *)
(*                                                                            *)
(* The decision table of ml.load / loads / load_all / loads_all and ml.dump /   *)
(* dumps, written from the documentation of reader.py / writer.py, plus the    *)
(* little state machine of dump targets: files (mode "a" appends, "w"          *)
(* replaces) and streams owned by the caller (left open, extended by exactly   *)
(* the text).  A text is abstract: <<object, format>> stands for what the      *)
(* object's own dumps_<format>() returns; a file or a stream holds a sequence  *)
(* of such texts.  What a load returns is described by the class method it     *)
(* must agree with (`route`), the shape (object / list), the class of the      *)
(* objects, their number, and whether a name override shows.                   *)
EXTENDS Integers, Sequences, FiniteSets, TLC
CONSTANTS Objs,        \* in-memory objects that can be dumped: id -> [kind, recs, cid]
          Docs,        \* documents to load: id -> [fmt, suffix, n, hom]  (fmt = what the content really is)
          Paths,       \* dump targets that are paths: id -> suffix
          Streams,     \* dump targets that are the caller's open streams
          SrcPaths,    \* paths whose document gets REPLACED between loads: id -> suffix
          MaxDumps, MaxReplace,
          Deviations
VARIABLES files, streams, nd,
          srcs,        \* SrcPaths -> the document the path currently holds ("none": no file yet)
          nr, cur,     \* replacements made so far; the path replaced last
          memo,        \* only under deviation StaleSourceCache: the document first loaded from each path
          last
srcv == <<srcs, nr, cur, memo>>
vars == <<files, streams, nd, srcs, nr, cur, memo, last>>
sv   == <<files, streams, nd, srcs, nr, cur, memo>>

WriterFmts == {"xyz", "mol2"}                 \* writer.supported_fmts_molli
ReaderFmts == {"xyz", "mol2", "cdxml"}        \* reader.supported_fmts_molli
OtherFmts  == {"sdf", "zzz"}                  \* known to openbabel only / known to nobody: both unsupported here
Otypes     == {"molecule", "ensemble", "Molecule", "ConformerEnsemble", "Structure"}
ClassOf(o) == CASE o = "molecule" -> "Molecule" [] o = "ensemble" -> "ConformerEnsemble" [] OTHER -> o
CE         == "ConformerEnsemble"
PathFns    == {"load", "load_all"}
StrFns     == {"loads", "loads_all"}
AllFns     == {"load_all", "loads_all"}
ClassFn(fn, fmt) == fn \o "_" \o fmt           \* Molecule.load_xyz, ConformerEnsemble.loads_mol2, ...

Absent   == [exists |-> FALSE, content |-> <<>>]
File(c)  == [exists |-> TRUE, content |-> c]
Init == /\ files = [p \in DOMAIN Paths |-> Absent]
        /\ streams = [s \in Streams |-> [open |-> TRUE, content |-> <<>>]]
        /\ nd = 0
        /\ srcs = [p \in DOMAIN SrcPaths |-> "none"] /\ nr = 0 /\ cur = "none"
        /\ memo = [p \in DOMAIN SrcPaths |-> "none"]
        /\ last = [act |-> "init"]

(* ---- the load decision table --------------------------------------------------- *)
(* fn, effective format, requested output type, name override given, key given (cdxml), and the facts    *)
(* about the input: n records, all of one constitution                                                  *)
Expect(fn, fmt, otype, named, keyed, n) ==
  LET cls == ClassOf(otype)
      all == fn \in AllFns
      one == "LoadsAllSingle" \in Deviations /\ fn = "loads_all"
      wrongcls == "OtypeIgnored" \in Deviations /\ cls = CE /\ fn = "load"
      rcls == IF wrongcls THEN "Molecule" ELSE cls
  IN IF fmt \notin ReaderFmts
       THEN [out |-> IF "UnsupportedIsOtherError" \in Deviations THEN "raises" ELSE "ValueError"]
     ELSE IF all /\ cls = CE /\ ~one
       THEN [out |-> "ValueError"]            \* by design: a list of ensembles is ambiguous
     ELSE [out |-> "ok",
           shape |-> IF all /\ ~one THEN "list" ELSE "object",
           cls   |-> rcls,
           route |-> IF fmt = "cdxml" THEN (IF all THEN "CDXMLFile.all" ELSE IF keyed THEN "CDXMLFile.key" ELSE "CDXMLFile.one")
                     ELSE rcls \o "." \o ClassFn(IF one THEN "loads" ELSE fn, fmt),
           count |-> IF all /\ ~one THEN n ELSE IF rcls = CE /\ fmt # "cdxml" THEN n ELSE 1,
           agrees |-> TRUE,
           nameok |-> ~(named /\ "EnsembleNameDropped" \in Deviations /\ cls = CE /\ fmt # "cdxml")]

EffFmt(d, fmtarg) == CASE fmtarg = "suffix" -> Docs[d].suffix [] fmtarg = "content" -> Docs[d].fmt [] OTHER -> fmtarg

(* the cells the table has for document d, and what it demands of them *)
Offered(fn, d, fmtarg, src, otype, named, keyed) ==
  LET fmt == EffFmt(d, fmtarg)
  IN /\ IF fn \in PathFns THEN src \in {"str", "Path"} /\ fmtarg \in {"suffix", "content"} \cup OtherFmts
                          ELSE src = "text" /\ fmtarg \in {"content"} \cup OtherFmts
     /\ fmt = "cdxml" => fn \in PathFns
     /\ keyed => fmt = "cdxml" /\ fn = "load"
     /\ (ClassOf(otype) = CE /\ fmt \in {"xyz", "mol2"}) => Docs[d].hom
     /\ fmt \in ReaderFmts => fmt = Docs[d].fmt

(* ml.<fn>(document d ...) *)
LoadAny(fn, d, fmtarg, src, otype, named, keyed) ==
  LET fmt == EffFmt(d, fmtarg)
      a   == [act |-> "load", fn |-> fn, doc |-> d, fmtarg |-> fmtarg, src |-> src, otype |-> otype,
              named |-> named, keyed |-> keyed]
  IN /\ IF fn \in PathFns THEN src \in {"str", "Path"} /\ fmtarg \in {"suffix", "content"} \cup OtherFmts
                          ELSE src = "text" /\ fmtarg \in {"content"} \cup OtherFmts
     /\ fmt = "cdxml" => fn \in PathFns                      \* cdxml from a string: documented as not implemented, not generated
     /\ keyed => fmt = "cdxml" /\ fn = "load"
     /\ (ClassOf(otype) = CE /\ fmt \in {"xyz", "mol2"}) => Docs[d].hom
     /\ fmt \in ReaderFmts => fmt = Docs[d].fmt               \* a supported format is never claimed for other content
     /\ UNCHANGED sv
     /\ last' = a @@ Expect(fn, fmt, otype, named, keyed, Docs[d].n)

(* stateless: in the model offered only while nothing has been dumped or replaced yet *)
Load(fn, d, fmtarg, src, otype, named, keyed) == nd = 0 /\ nr = 0 /\ LoadAny(fn, d, fmtarg, src, otype, named, keyed)

(* ---- source paths whose content is replaced between loads ------------------------ *)
(* the file at source path sp is (re)written with document d (same suffix: the path does not change)     *)
ReplaceAny(sp, d) ==
  /\ sp \in DOMAIN SrcPaths /\ Docs[d].suffix = SrcPaths[sp]
  /\ srcs' = [srcs EXCEPT ![sp] = d] /\ nr' = nr + 1 /\ cur' = sp
  /\ UNCHANGED <<files, streams, nd, memo>>
  /\ last' = [act |-> "replace", sp |-> sp, doc |-> d, out |-> "ok"]
(* ml.load / load_all on a source path: the result is the class-level codec applied to what the file     *)
(* holds NOW -- whatever was loaded from that path, or from equal content, before                        *)
LoadSrcAny(fn, sp, fmtarg, src, otype, named, keyed) ==
  LET stale == "StaleSourceCache" \in Deviations /\ memo[sp] # "none"
      d     == IF stale THEN memo[sp] ELSE srcs[sp]           \* the document the answer is computed from
      fmt   == EffFmt(d, fmtarg)
      a     == [act |-> "loadsrc", fn |-> fn, sp |-> sp, doc |-> d, fmtarg |-> fmtarg, src |-> src, otype |-> otype,
                named |-> named, keyed |-> keyed]
  IN /\ sp \in DOMAIN SrcPaths /\ srcs[sp] # "none" /\ fn \in PathFns
     /\ Offered(fn, srcs[sp], fmtarg, src, otype, named, keyed)
     /\ memo' = IF "StaleSourceCache" \in Deviations /\ memo[sp] = "none" THEN [memo EXCEPT ![sp] = srcs[sp]] ELSE memo
     /\ UNCHANGED <<files, streams, nd, srcs, nr, cur>>
     /\ last' = a @@ Expect(fn, fmt, otype, named, keyed, Docs[d].n)
(* bounded variants: one path is rewritten up to MaxReplace times, loads go to the path rewritten last   *)
Replace(sp, d) == nd = 0 /\ nr < MaxReplace /\ cur \in {"none", sp} /\ ReplaceAny(sp, d)
LoadSrc(fn, sp, fmtarg, src, otype, named, keyed) == sp = cur /\ LoadSrcAny(fn, sp, fmtarg, src, otype, named, keyed)

(* ---- dump targets ---------------------------------------------------------------- *)
Tok(o, f) == <<o, f>>
EffDump(t, fmtarg) == IF fmtarg = "none" THEN (IF t \in DOMAIN Paths THEN Paths[t] ELSE "none") ELSE fmtarg
ModeOf(m) == IF m = "default" THEN (IF "DefaultModeReplaces" \in Deviations THEN "w" ELSE "a") ELSE m

(* ml.dump(o, <path t as str or Path>, fmt?, mode?) *)
DumpPath(o, t, tkind, fmtarg, mode) ==
  LET fmt == EffDump(t, fmtarg)
      a   == [act |-> "dump", obj |-> o, tgt |-> t, tkind |-> tkind, fmtarg |-> fmtarg, mode |-> mode]
      old == files[t].content
  IN /\ t \in DOMAIN Paths /\ tkind \in {"str", "Path"} /\ nd < MaxDumps
     /\ nd' = nd + 1 /\ UNCHANGED <<streams, srcv>>
     /\ IF fmt \in WriterFmts
          THEN /\ files' = [files EXCEPT ![t] = File(IF ModeOf(mode) = "w" THEN <<Tok(o, fmt)>> ELSE Append(old, Tok(o, fmt)))]
               /\ last' = a @@ [out |-> "ok"]
          ELSE \* refused; what happens to the file is not stated by the property: untouched, or created empty /
               \* truncated by the open() that precedes the format check
               /\ \/ UNCHANGED files
                  \/ ~files[t].exists /\ files' = [files EXCEPT ![t] = File(<<>>)]
                  \/ ModeOf(mode) = "w" /\ files' = [files EXCEPT ![t] = File(<<>>)]
               /\ last' = a @@ [out |-> IF "UnsupportedIsOtherError" \in Deviations THEN "raises" ELSE "ValueError"]

(* ml.dump(o, <the caller's open stream s>, fmt) *)
DumpStream(o, s, fmtarg) ==
  LET fmt == EffDump(s, fmtarg)
      a   == [act |-> "dump", obj |-> o, tgt |-> s, tkind |-> "stream", fmtarg |-> fmtarg, mode |-> "default"]
  IN /\ s \in Streams /\ streams[s].open /\ nd < MaxDumps
     /\ nd' = nd + 1 /\ UNCHANGED <<files, srcv>>
     /\ IF fmt \in WriterFmts
          THEN /\ streams' = [streams EXCEPT ![s] = [open |-> "StreamClosedAfterDump" \notin Deviations,
                                                    content |-> Append(@.content, Tok(o, fmt))]]
               /\ last' = a @@ [out |-> IF "StreamDumpRaises" \in Deviations THEN "raises" ELSE "ok"]
          ELSE /\ UNCHANGED streams
               /\ last' = a @@ [out |-> IF "UnsupportedIsOtherError" \in Deviations THEN "raises" ELSE "ValueError"]

(* ml.dumps(o, fmt) *)
DumpsAny(o, fmtarg) ==
  /\ UNCHANGED sv
  /\ last' = [act |-> "dumps", obj |-> o, fmtarg |-> fmtarg] @@
             (IF fmtarg \in WriterFmts THEN [out |-> "ok", val |-> <<Tok(o, fmtarg)>>]
              ELSE [out |-> IF "UnsupportedIsOtherError" \in Deviations THEN "raises" ELSE "ValueError"])

Dumps(o, fmtarg) == nd = 0 /\ DumpsAny(o, fmtarg)

(* ml.load / load_all on a file that dumps produced *)
RECURSIVE SumRecs(_)
SumRecs(c) == IF c = <<>> THEN 0 ELSE Objs[Head(c)[1]].recs + SumRecs(Tail(c))
LoadBack(fn, t, otype, named) ==
  LET c   == files[t].content
      fmt == c[1][2]
      hom == \A i \in 1..Len(c) : Objs[c[i][1]].cid = Objs[c[1][1]].cid
      a   == [act |-> "loadback", fn |-> fn, tgt |-> t, fmt |-> fmt, otype |-> otype, named |-> named]
  IN /\ t \in DOMAIN Paths /\ fn \in PathFns /\ c # <<>>
     /\ \A i \in 1..Len(c) : c[i][2] = fmt                  \* one format throughout the file
     /\ ClassOf(otype) = CE => hom
     /\ UNCHANGED sv
     /\ last' = a @@ Expect(fn, fmt, otype, named, FALSE, SumRecs(c))

(* bounded variants for the model: the first dump of a history covers the Path-object target and the rarer formats *)
DumpPathB(o, t, tk, fa, m) == /\ nr = 0
                              /\ nd > 0 => tk = "str" /\ fa \notin {"zzz", "cdxml"}
                              /\ DumpPath(o, t, tk, fa, m)
DumpStreamB(o, s, fa)      == /\ nr = 0
                              /\ nd > 0 => fa \notin {"zzz", "cdxml"}
                              /\ DumpStream(o, s, fa)
Next == \/ \E fn \in PathFns \cup StrFns, d \in DOMAIN Docs, fa \in {"suffix", "content"} \cup OtherFmts,
              src \in {"str", "Path", "text"}, ot \in Otypes, nm \in BOOLEAN, ky \in BOOLEAN : Load(fn, d, fa, src, ot, nm, ky)
        \/ \E o \in DOMAIN Objs, t \in DOMAIN Paths, tk \in {"str", "Path"},
              fa \in {"none", "cdxml"} \cup WriterFmts \cup OtherFmts, m \in {"default", "a", "w"} : DumpPathB(o, t, tk, fa, m)
        \/ \E o \in DOMAIN Objs, s \in Streams, fa \in {"none", "cdxml"} \cup WriterFmts \cup OtherFmts : DumpStreamB(o, s, fa)
        \/ \E o \in DOMAIN Objs, fa \in {"cdxml"} \cup WriterFmts \cup OtherFmts : Dumps(o, fa)
        \/ \E fn \in PathFns, t \in DOMAIN Paths, ot \in {"molecule", "ensemble", "Structure"}, nm \in BOOLEAN :
              LoadBack(fn, t, ot, nm)                        \* class objects as otype: covered by the Load cells
        \/ \E sp \in DOMAIN SrcPaths, d \in DOMAIN Docs : Replace(sp, d)
        \/ \E fn \in PathFns, sp \in DOMAIN SrcPaths, fa \in {"suffix", "content"}, src \in {"str", "Path"},
              ot \in {"molecule", "ensemble", "Structure"}, nm \in BOOLEAN, ky \in BOOLEAN : LoadSrc(fn, sp, fa, src, ot, nm, ky)
Spec == Init /\ [][Next]_vars

(* ---- the clauses of C09 ---------------------------------------------------------- *)
IsLoad(a) == a.act \in {"load", "loadback", "loadsrc"}
(* the table is total: every offered cell gets exactly an error class or a full description *)
Total == last.act \in {"load", "loadback", "loadsrc"} =>
           \/ last.out \in {"ValueError"} /\ DOMAIN last \cap {"route", "shape"} = {}
           \/ last.out = "ok" /\ {"route", "shape", "cls", "count", "agrees", "nameok"} \subseteq DOMAIN last
ListsWherePromised ==
  [][(IsLoad(last') /\ last'.out = "ok") => (last'.shape = "list" <=> last'.fn \in AllFns)]_vars
UnsupportedIsValueError ==
  [][/\ (last'.act \in {"load", "loadsrc"} /\ EffFmt(last'.doc, last'.fmtarg) \notin ReaderFmts) => last'.out = "ValueError"
     /\ (last'.act = "dump" /\ EffDump(last'.tgt, last'.fmtarg) \notin WriterFmts) => last'.out = "ValueError"
     /\ (last'.act = "dumps" /\ last'.fmtarg \notin WriterFmts) => last'.out = "ValueError"]_vars
SupportedSucceeds ==
  [][/\ (last'.act = "dump" /\ EffDump(last'.tgt, last'.fmtarg) \in WriterFmts) => last'.out = "ok"
     /\ (last'.act = "dumps" /\ last'.fmtarg \in WriterFmts) => last'.out = "ok" /\ last'.val = <<Tok(last'.obj, last'.fmtarg)>>]_vars
(* the class asked for is the class of what comes back, by the class's own method *)
RouteMatchesOtype ==
  [][(IsLoad(last') /\ last'.out = "ok") => last'.cls = ClassOf(last'.otype) /\ last'.agrees]_vars
NameHonoured == [][(IsLoad(last') /\ last'.out = "ok") => last'.nameok]_vars
(* a load of a path answers for the document the path holds at that moment (no memory of earlier loads) *)
LoadsCurrentContent == [][last'.act = "loadsrc" => last'.doc = srcs[last'.sp]]_vars
(* a caller's stream stays open and grows by exactly the text of each successful dump, by nothing otherwise *)
StreamsStayOpen == \A s \in Streams : streams[s].open
StreamGrowsByText ==
     [][\A s \in Streams :
          IF last'.act = "dump" /\ last'.tgt = s /\ last'.out = "ok"
            THEN streams'[s].content = Append(streams[s].content, Tok(last'.obj, EffDump(s, last'.fmtarg)))
            ELSE streams'[s].content = streams[s].content]_vars
(* mode "a" (the default) accumulates, "w" replaces; other files are untouched *)
AppendAccumulates ==
  [][\A t \in DOMAIN Paths :
       IF last'.act = "dump" /\ last'.tgt = t /\ last'.out = "ok"
         THEN LET tok == Tok(last'.obj, EffDump(t, last'.fmtarg))
                  old == files[t].content
              IN files'[t] = File(IF last'.mode = "w" THEN <<tok>> ELSE Append(old, tok))
         ELSE last'.act # "dump" \/ last'.tgt # t => files'[t] = files[t]]_vars
TypeOK == /\ nd \in 0..MaxDumps /\ nr \in 0..MaxReplace
          /\ \A p \in DOMAIN SrcPaths : srcs[p] = "none" \/ Docs[srcs[p]].suffix = SrcPaths[p]
          /\ \A t \in DOMAIN Paths : /\ \A i \in 1..Len(files[t].content) : files[t].content[i][1] \in DOMAIN Objs
                                      /\ ~files[t].exists => files[t].content = <<>>
=============================================================================
