------------------------------- MODULE Readers -------------------------------
(* C10: damaged or truncated mol2 / xyz text is rejected, never returned as a   *)
(* partial molecule; the readers terminate on every input.                      *)
(*                                                                              *)
(* A text is a sequence of LINES; a line is a record that carries its purely    *)
(* lexical reading (no context):                                                *)
(*   [k |-> "blank"] [k |-> "cmt"]          empty line, # comment               *)
(*   [k |-> "tag",  t]                       @<TRIPOS>t                          *)
(*   [k |-> "ints", c]                       every token is an integer (counts   *)
(*                                           line, xyz count, numeric bond line) *)
(*   [k |-> "atom", ok, hq, ...]             an atom record (ok: type / symbol   *)
(*                                           token is in the vocabulary, hq: a   *)
(*                                           charge token is present)            *)
(*   [k |-> "bond", a1, a2, ok, ...]         a bond record with a word type      *)
(*   [k |-> "text", s]                       anything else (names, comments,     *)
(*                                           and every corrupted line)           *)
(* every line has nt = number of tokens.                                        *)
(*                                                                              *)
(* The module contains                                                          *)
(*  - line-level machines of molli.parsing.read_mol2 + Structure.yield_from_mol2 *)
(*    and of read_xyz + CartesianGeometry.yield_from_xyz (one action per line    *)
(*    consumed, put_back modelled as in _reader.LineReader), written as the      *)
(*    REQUIRED design; named Deviations switch single actions to wrong           *)
(*    behaviours (the first two are what the pinned tree does);                  *)
(*  - the damages of C10 (Apply / Damages) over a generated family of files;     *)
(*  - the contract ErrorOrComplete (RetOK), shared with ReadersTrace.tla which   *)
(*    judges the outcomes of the REAL readers with it.                           *)
EXTENDS Integers, Sequences, FiniteSets, TLC, SequencesExt

CONSTANTS Deviations,
          Src(_)          \* the sequence of lines behind the value of `lines` / `orig` (identity when model checking;
                          \* the trace specification keeps the big texts out of the state and stores a handle)
(* "StaleLists"            atom/bond lists are not reset at @<TRIPOS>MOLECULE (pinned tree)          *)
(* "NoCountCheck"          a block is turned into a molecule without comparing list lengths with the *)
(*                         header (pinned tree: declared atoms are created, rows filled as far as    *)
(*                         the list goes)                                                            *)
(* "RepeatedBlockAccepted" a second ATOM/BOND block inside one molecule replaces the first           *)
(*                         (pinned tree; implied by StaleLists)                                      *)
(* "EofEndsBlock"          end of input inside a counted ATOM/BOND loop ends the loop quietly        *)
(* "XyzCountNotEnforced"   xyz atom lines are read until something else comes, the count is ignored  *)
(* "XyzEofEndsFrame"       end of input inside an xyz frame yields the frame read so far             *)
(* "PutBackNoProgress"     an unexpected line is put back instead of rejected (loop consumes nothing)*)
(* "MissingChargeIsZero"   an atom record that lost its charge column is read as neutral although the    *)
(*                         text announces charges and the class carries them                            *)
(* "SlotById"              the atom records are stored at the slot named by their serial number instead  *)
(*                         of by position: a damaged serial number leaves one slot blank                *)
(* "EndpointWraps"         a bond endpoint 0 is taken for the last atom (negative indexing)             *)
(* "LastTokenCut"          damage level: cutting the last numeric token of the text leaves a         *)
(*                         well-formed record with another value (no reader can notice)              *)
(* "OptionalBlockCut"      damage level: a truncation right before an optional UNITY_xxx block of a    *)
(*                         molecule without bonds leaves a well-formed text without the attributes   *)

VARIABLES fmt, cls, meta, orig, dmg, ref, lines,  \* the input: format, consuming class, description, undamaged lines, damage,
                                                 \* molecules of the undamaged text, damaged lines
          pos, pb, pc, cnt, tmp, hdr, atoms, gotA, bonds, gotB, ua, skip, out, steps, last
ivars == <<fmt, cls, meta, orig, dmg, ref, lines>>
rvars == <<pos, pb, pc, cnt, tmp, hdr, atoms, gotA, bonds, gotB, ua, skip, out, steps>>
vars  == <<ivars, rvars, last>>

Dev(d) == d \in Deviations
(* the consuming class decides which columns of a record are looked at: Molecule and ConformerEnsemble carry  *)
(* partial charges (column 9 of a mol2 atom record), Structure never reads that column                        *)
UsesQ == cls # "Structure"
Reset       == ~Dev("StaleLists")
RepeatCheck == Reset /\ ~Dev("RepeatedBlockAccepted")
CountCheck  == ~Dev("NoCountCheck")

(* ------------------------------ lines ---------------------------------------- *)
Blank        == [k |-> "blank", nt |-> 0]
Cmt          == [k |-> "cmt", nt |-> 1]
Tag(t)       == [k |-> "tag", t |-> t, nt |-> 1]
Text(s, n)   == [k |-> "text", s |-> s, nt |-> n]
Ints(c)      == [k |-> "ints", c |-> c, nt |-> Len(c)]
(* n: the serial number column of a record (atom id / bond id): "for reference only", not content *)
MAtom(id)    == [k |-> "atom", id |-> id, n |-> id % 10, ok |-> TRUE, hq |-> TRUE, nt |-> 9]
MBond(a, b, id) == [k |-> "bond", a1 |-> a, a2 |-> b, id |-> id, n |-> id % 10, ok |-> TRUE, nt |-> 4]
XAtom(id)    == [k |-> "atom", id |-> id, ok |-> TRUE, hq |-> FALSE, nt |-> 4]
Junk         == Text("?!", 1)
KnownTags    == {"MOLECULE", "ATOM", "BOND", "UNITY_ATOM_ATTR", "UNITY_BOND_ATTR"}

IsTag(l, t)  == l.k = "tag" /\ l.t = t
HasCounts(l) == l.k = "ints" /\ Len(l.c) >= 1
IsCount(l)   == l.k = "ints" /\ Len(l.c) = 1 /\ l.c[1] >= 0
AtomOK(l, needq) == l.k = "atom" /\ l.ok /\ ((needq /\ UsesQ /\ ~Dev("MissingChargeIsZero")) => l.hq)
(* what of a record is content for the consuming class *)
NormQ(l, uq) == IF l.k = "atom" THEN [l EXCEPT !.hq = (IF uq THEN @ ELSE TRUE), !.nt = 0, !.n = 0]
                ELSE IF l.k = "bond" THEN [l EXCEPT !.n = 0] ELSE l
Norm(l) == NormQ(l, UsesQ)
BondOK(l)    == \/ l.k = "bond" /\ l.ok
                \/ l.k = "ints" /\ Len(l.c) \in 4..6 /\ l.c[4] \in 1..6      \* "7 3 4 1"
EndsOf(l)    == IF l.k = "bond" THEN <<l.a1, l.a2>> ELSE <<l.c[2], l.c[3]>>

(* ------------------------------ the contract ---------------------------------- *)
(* a returned molecule m against the header d that announced it and the molecule   *)
(* r of the undamaged text at the same index                                       *)
Complete(m, d) == m.na = d.na /\ m.nc = d.na /\ m.nb = d.nb
RetOK(ms, rf, decl) ==
  /\ Len(ms) <= Len(rf) /\ Len(ms) <= Len(decl)
  /\ \A i \in 1..Len(ms) : Complete(ms[i], decl[i]) /\ ms[i].dig = rf[i].dig

(* what the headers of a text declare, independent of any reader:                  *)
(* mol2: the MOLECULE tags that are followed (name line in between) by a counts    *)
(* line, in order; xyz: the count lines met by walking count + comment + count     *)
(* atom lines at a time                                                            *)
Mol2Hdrs(L) == {i \in 1..Len(L) : /\ L[i].k = "tag" /\ L[i].t = "MOLECULE" /\ i + 2 <= Len(L)
                                  /\ L[i + 2].k = "ints" /\ Len(L[i + 2].c) >= 1}
DeclMol2(L) == LET S == SetToSortSeq(Mol2Hdrs(L), LAMBDA a, b : a < b)
               IN [j \in 1..Len(S) |-> LET c == L[S[j] + 2].c
                                       IN [na |-> c[1], nb |-> IF Len(c) >= 2 THEN c[2] ELSE 0]]
RECURSIVE XWalk(_, _)
XWalk(L, i) == IF i > Len(L) \/ ~IsCount(L[i]) THEN <<>>
               ELSE <<[na |-> L[i].c[1], nb |-> 0]>> \o XWalk(L, i + 2 + L[i].c[1])
Declared(f, L) == IF f = "mol2" THEN DeclMol2(L) ELSE XWalk(L, 1)

(* ------------------------------ damages --------------------------------------- *)
Apply(L, d) ==
  CASE d.op = "none" -> L
    [] d.op = "cut"  -> SubSeq(L, 1, d.i)                                   \* keep the first i lines
    [] d.op = "del"  -> SubSeq(L, 1, d.i - 1) \o SubSeq(L, d.i + 1, Len(L))
    [] d.op = "dup"  -> SubSeq(L, 1, d.i) \o SubSeq(L, d.i, Len(L))
    [] d.op = "repl" -> [L EXCEPT ![d.i] = d.line]                          \* token corrupted / record cut
RECURSIVE ApplyAll(_, _)
ApplyAll(L, ds) == IF ds = <<>> THEN L ELSE ApplyAll(Apply(L, Head(ds)), Tail(ds))

(* the replacement lines a single damaged line can turn into *)
Variants(f, l, islast, iscnt) ==
  (IF l.k \in {"tag", "ints", "atom", "bond"} THEN {[v |-> "junk", line |-> Junk]} ELSE {})
  \* a tag renamed to an unknown block (skipped by design): only for the blocks the header announces; the
  \* loss of an optional block (UNITY_xxx, SUBSTRUCTURE, ...) leaves a well-formed text no reader can tell apart
  \cup (IF l.k = "tag" /\ l.t \in {"MOLECULE", "ATOM", "BOND"} THEN {[v |-> "other", line |-> Tag("XTAG")]} ELSE {})
  \cup (IF iscnt /\ l.k = "ints" /\ f = "mol2" /\ Len(l.c) >= 2
          THEN {[v |-> "na+1", line |-> Ints([l.c EXCEPT ![1] = @ + 1])],
                [v |-> "nb+1", line |-> Ints([l.c EXCEPT ![2] = @ + 1])]}
               \cup (IF l.c[1] > 0 THEN {[v |-> "na-1", line |-> Ints([l.c EXCEPT ![1] = @ - 1])]} ELSE {})
               \cup (IF l.c[2] > 0 THEN {[v |-> "nb-1", line |-> Ints([l.c EXCEPT ![2] = @ - 1])]} ELSE {})
          ELSE {})
  \cup (IF iscnt /\ l.k = "ints" /\ f = "xyz"
          THEN {[v |-> "na+1", line |-> Ints(<<l.c[1] + 1>>)]}
               \cup (IF l.c[1] > 0 THEN {[v |-> "na-1", line |-> Ints(<<l.c[1] - 1>>)]} ELSE {})
          ELSE {})
  \* an atom record that lost its trailing optional tokens (token dropped, or the line cut after the atom type)
  \cup (IF l.k = "atom" /\ f = "mol2" /\ l.hq THEN {[v |-> "noq", line |-> [l EXCEPT !.hq = FALSE, !.nt = 6]]} ELSE {})
  \* a token replaced by ANOTHER VALID value of its column: a serial number that another record already has (or
  \* off by one), a bond endpoint off by one so that it leaves 1..n_atoms.  (An endpoint that stays inside 1..n_atoms,
  \* like any other value-carrying token, gives another well-formed text: no reader can notice.)
  \cup (IF l.k \in {"atom", "bond"} /\ f = "mol2" THEN {[v |-> "n+1", line |-> [l EXCEPT !.n = @ + 1]]}
                                                  \cup (IF l.n > 1 THEN {[v |-> "n-1", line |-> [l EXCEPT !.n = @ - 1]]} ELSE {}) ELSE {})
  \cup (IF l.k = "bond" THEN {[v |-> "a1-1", line |-> [l EXCEPT !.a1 = @ - 1]], [v |-> "a2+1", line |-> [l EXCEPT !.a2 = @ + 1]]} ELSE {})
  \cup (IF islast /\ l.k = "atom" /\ Dev("LastTokenCut")
          THEN {[v |-> "cutnum", line |-> [l EXCEPT !.id = @ + 100]]} ELSE {})
NoLine == Blank
(* keeping n lines cuts the text right before an optional block (UNITY_xxx) of a molecule that declares no bonds: *)
(* what is left is a well-formed text, only the attributes of that block are gone (no reader can notice)        *)
OptCut(L, n) == /\ L[n + 1].k = "tag" /\ L[n + 1].t \in {"UNITY_ATOM_ATTR", "UNITY_BOND_ATTR"}
                /\ \E i \in 1..n : /\ L[i].k = "tag" /\ L[i].t = "MOLECULE" /\ L[i + 2].c[2] = 0
                                   /\ \A j \in (i + 1)..n : ~(L[j].k = "tag" /\ L[j].t = "MOLECULE")
(* the lines that declare counts in a generated (undamaged) file *)
IsCntLine(f, L, n) == IF f = "xyz" THEN L[n].k = "ints" ELSE n >= 3 /\ L[n - 2].k = "tag" /\ L[n - 2].t = "MOLECULE"
Damages(f, L) ==
  {[op |-> "none", i |-> 0, v |-> "-", line |-> NoLine]}
  \cup {[op |-> "cut", i |-> n, v |-> "-", line |-> NoLine] : n \in {m \in 0..(Len(L) - 1) : Dev("OptionalBlockCut") \/ ~OptCut(L, m)}}
  \cup {[op |-> o, i |-> n, v |-> "-", line |-> NoLine] : o \in {"del", "dup"}, n \in 1..Len(L)}
  \cup UNION {{[op |-> "repl", i |-> n, v |-> x.v, line |-> x.line] : x \in Variants(f, L[n], n = Len(L), IsCntLine(f, L, n))} : n \in 1..Len(L)}

(* ------------------------------ generated files ------------------------------- *)
(* molecule number m with shape [na, nb]; atom / bond ids are unique in the file    *)
MolAtoms(f, m, sh) == [j \in 1..sh.na |-> IF f = "mol2" THEN MAtom(10 * m + j) ELSE XAtom(10 * m + j)]
MolBonds(m, sh)    == [j \in 1..sh.nb |-> MBond(1, 2, 10 * m + j)]
MolName(m) == <<"mol_1", "mol_2", "mol_3", "mol_4">>[m]
RenderMol(f, st, m, sh) ==
  IF f = "xyz" THEN <<Ints(<<sh.na>>), Text("comment", 1)>> \o MolAtoms(f, m, sh)
  ELSE <<Tag("MOLECULE"), Text(MolName(m), 1), Ints(<<sh.na, sh.nb, 0, 0, 0>>), Text("SMALL", 1), Text("USER_CHARGES", 1)>>
       \o (CASE st = "nostatus" -> <<>>
             [] st = "stars"    -> <<Text("****", 1), Text("comment", 1)>>
             [] OTHER           -> <<Blank>>)
       \o <<Tag("ATOM")>> \o MolAtoms(f, m, sh)
       \o (IF st = "unity" /\ sh.na >= 1 THEN <<Tag("UNITY_ATOM_ATTR"), Ints(<<1, 1>>), Text("charge 1", 2)>> ELSE <<>>)
       \o <<Tag("BOND")>> \o MolBonds(m, sh)
       \o (IF st = "sub" THEN <<Tag("SUBSTRUCTURE"), Text("1 UNL1 1", 3)>> ELSE <<>>)
RECURSIVE RenderFrom(_, _, _, _)
RenderFrom(f, st, shs, m) == IF m > Len(shs) THEN <<>> ELSE RenderMol(f, st, m, shs[m]) \o RenderFrom(f, st, shs, m + 1)
Render(f, st, shs) == (IF f = "mol2" THEN <<Cmt>> ELSE <<>>) \o RenderFrom(f, st, shs, 1)
Content(as, bs, u, nm) == <<as, bs, u, nm>>   \* u: number of attribute records attached by UNITY_xxx blocks, nm: name
MkRef(f, st, shs, c) == [m \in 1..Len(shs) |->
                   LET raw == MolAtoms(f, m, shs[m])
                       as == [j \in 1..Len(raw) |-> IF f = "mol2" THEN NormQ(raw[j], c # "Structure") ELSE raw[j]]
                       rb == IF f = "mol2" THEN MolBonds(m, shs[m]) ELSE <<>>
                       bs == [j \in 1..Len(rb) |-> NormQ(rb[j], TRUE)]
                   IN [na |-> shs[m].na, nc |-> shs[m].na, nb |-> Len(bs), atoms |-> as, bonds |-> bs, dig |-> Content(as, bs, IF f = "mol2" /\ st = "unity" /\ shs[m].na >= 1 THEN 1 ELSE 0, IF f = "mol2" THEN MolName(m) ELSE "")]]

(* ------------------------------ the reader machines --------------------------- *)
NoHdr == [na |-> -1, nb |-> -1, chg |-> FALSE, name |-> ""]
NameOf(l) == IF l.k = "text" THEN l.s ELSE "?"          \* the molecule name is free text
ReaderInit == /\ pos = 1 /\ pb = <<>> /\ pc = "main" /\ cnt = 0 /\ tmp = NoHdr /\ hdr = NoHdr
              /\ atoms = <<>> /\ gotA = FALSE /\ bonds = <<>> /\ gotB = FALSE /\ ua = 0 /\ skip = FALSE /\ out = <<>> /\ steps = 0
Running == pc \notin {"done", "error"}
TheLines == Src(lines)
AtEof   == pb = <<>> /\ pos > Len(TheLines)
(* the state holds line NUMBERS (put-back buffer, atom / bond lists); the records are looked up when needed *)
CurIdx  == IF pb # <<>> THEN Head(pb) ELSE pos
Cur     == TheLines[CurIdx]
(* LineReader.__next__ / put_back: extra lines first, then the stream *)
Consume == IF pb # <<>> THEN pb' = Tail(pb) /\ pos' = pos ELSE pb' = pb /\ pos' = pos + 1
PutBack == IF pb # <<>> THEN pb' = Append(Tail(pb), Head(pb)) /\ pos' = pos ELSE pb' = <<pos>> /\ pos' = pos + 1
Tick(a) == steps' = steps + 1 /\ last' = [act |-> a] /\ UNCHANGED ivars
Fail(a) == pc' = "error" /\ Tick(a) /\ UNCHANGED <<pos, pb, cnt, tmp, hdr, atoms, gotA, bonds, gotB, ua, skip, out>>

(* block -> molecule (Structure.yield_from_mol2) *)
PadRow == [k |-> "atom", id |-> 0, n |-> 0, ok |-> TRUE, hq |-> TRUE, nt |-> 0]
MkMol(h, as, gA, bs, gB, u) ==
  LET R == IF gA THEN [j \in 1..Len(as) |-> TheLines[as[j]]] ELSE <<>>
      bySlot == Dev("SlotById") /\ Len(R) = h.na
      slotsOK == \A i \in 1..Len(R) : R[i].n \in 1..h.na
      A == IF bySlot /\ slotsOK
             THEN [j \in 1..h.na |-> LET S == {i \in 1..Len(R) : R[i].n = j}
                                     IN IF S = {} THEN PadRow ELSE Norm(R[CHOOSE i \in S : \A k \in S : k <= i])]
             ELSE [j \in 1..Len(R) |-> Norm(R[j])]
      B == IF gB THEN [j \in 1..Len(bs) |-> Norm(TheLines[bs[j]])] ELSE <<>>
      lo == IF Dev("EndpointWraps") THEN 0 ELSE 1
      inside == /\ \A i \in 1..Len(B) : EndsOf(B[i])[1] \in lo..h.na /\ EndsOf(B[i])[2] \in lo..h.na
                /\ (bySlot => slotsOK)
  IN IF CountCheck
       THEN [ok |-> h # NoHdr /\ Len(A) = h.na /\ Len(B) = (IF h.nb < 0 THEN 0 ELSE h.nb) /\ inside,
             m  |-> [na |-> h.na, nc |-> Len(A), nb |-> Len(B), chg |-> h.chg, name |-> h.name, atoms |-> A, bonds |-> B, dig |-> Content(A, B, u, h.name)]]
       ELSE \* pinned tree: cls(n_atoms = header.n_atoms); rows filled from the list; enumerate(None) raises
            LET P == A \o [j \in 1..(h.na - Len(A)) |-> PadRow]
            \* (a charge list of another length is refused by the atomic_charges setter unless NO_CHARGES)
            IN [ok |-> h # NoHdr /\ gA /\ gB /\ Len(A) <= h.na /\ (h.chg => Len(A) = h.na) /\ inside,
                m  |-> [na |-> h.na, nc |-> h.na, nb |-> Len(B), chg |-> h.chg, name |-> h.name, atoms |-> P, bonds |-> B, dig |-> Content(P, B, u, h.name)]]

(* ---- mol2 ---- *)
M2Eof == /\ fmt = "mol2" /\ pc = "main" /\ AtEof
         /\ LET r == MkMol(hdr, atoms, gotA, bonds, gotB, ua)
            IN IF r.ok THEN out' = Append(out, r.m) /\ pc' = "done" ELSE out' = out /\ pc' = "error"
         /\ Tick("M2Eof") /\ UNCHANGED <<pos, pb, cnt, tmp, hdr, atoms, gotA, bonds, gotB, ua, skip>>

M2Skip == /\ fmt = "mol2" /\ pc = "main" /\ ~AtEof /\ Cur.k \in {"blank", "cmt"}
          /\ Consume /\ Tick("M2Skip") /\ UNCHANGED <<pc, cnt, tmp, hdr, atoms, gotA, bonds, gotB, ua, skip, out>>

M2Molecule ==
  /\ fmt = "mol2" /\ pc = "main" /\ ~AtEof /\ IsTag(Cur, "MOLECULE")
  /\ LET r == MkMol(hdr, atoms, gotA, bonds, gotB, ua)
     IN IF hdr # NoHdr /\ ~r.ok
          THEN Fail("M2Molecule")
          ELSE /\ out' = IF hdr # NoHdr THEN Append(out, r.m) ELSE out
               /\ IF Reset THEN atoms' = <<>> /\ gotA' = FALSE /\ bonds' = <<>> /\ gotB' = FALSE /\ ua' = 0
                           ELSE UNCHANGED <<atoms, gotA, bonds, gotB, ua>>
               /\ pc' = "h1" /\ skip' = FALSE /\ Consume /\ Tick("M2Molecule") /\ UNCHANGED <<cnt, tmp, hdr>>

(* name, molecule type, charge type: any line is taken, only the end of input is an error *)
M2HdrLine ==
  /\ fmt = "mol2" /\ pc \in {"h1", "h3", "h4"}
  /\ IF AtEof THEN Fail("M2HdrLine")
     ELSE /\ pc' = (CASE pc = "h1" -> "h2" [] pc = "h3" -> "h4" [] pc = "h4" -> "h5")
          /\ tmp' = IF pc = "h4" THEN [tmp EXCEPT !.chg = ~(Cur.k = "text" /\ Cur.s = "NO_CHARGES")]
                    ELSE IF pc = "h1" THEN [tmp EXCEPT !.name = NameOf(Cur)] ELSE tmp
          /\ Consume /\ Tick("M2HdrLine") /\ UNCHANGED <<cnt, hdr, atoms, gotA, bonds, gotB, ua, skip, out>>

M2HdrCounts ==
  /\ fmt = "mol2" /\ pc = "h2"
  /\ IF AtEof \/ ~HasCounts(Cur) THEN Fail("M2HdrCounts")
     ELSE /\ tmp' = [na |-> Cur.c[1], nb |-> IF Len(Cur.c) >= 2 THEN Cur.c[2] ELSE -1, chg |-> TRUE, name |-> tmp.name]
          /\ pc' = "h3" /\ Consume /\ Tick("M2HdrCounts") /\ UNCHANGED <<cnt, hdr, atoms, gotA, bonds, gotB, ua, skip, out>>

(* the optional status-bits line: a tag is put back, "****" announces a comment line *)
M2HdrStatus ==
  /\ fmt = "mol2" /\ pc = "h5"
  /\ IF AtEof THEN Fail("M2HdrStatus")
     ELSE /\ ~(Cur.k = "tag")
          /\ pc' = IF Cur.k = "text" /\ Cur.s = "****" THEN "h6" ELSE "main"
          /\ hdr' = IF pc' = "main" THEN tmp ELSE hdr
          /\ Consume /\ Tick("M2HdrStatus") /\ UNCHANGED <<cnt, tmp, atoms, gotA, bonds, gotB, ua, skip, out>>
M2HdrPutBack ==
  /\ fmt = "mol2" /\ pc = "h5" /\ ~AtEof /\ Cur.k = "tag"
  /\ PutBack /\ pc' = "main" /\ hdr' = tmp
  /\ Tick("M2HdrPutBack") /\ UNCHANGED <<cnt, tmp, atoms, gotA, bonds, gotB, ua, skip, out>>
M2HdrComment ==
  /\ fmt = "mol2" /\ pc = "h6"
  /\ IF AtEof THEN Fail("M2HdrComment")
     ELSE /\ pc' = "main" /\ hdr' = tmp /\ Consume /\ Tick("M2HdrComment")
          /\ UNCHANGED <<cnt, tmp, atoms, gotA, bonds, gotB, ua, skip, out>>

M2AtomTag ==
  /\ fmt = "mol2" /\ pc = "main" /\ ~AtEof /\ IsTag(Cur, "ATOM")
  /\ IF hdr = NoHdr \/ (RepeatCheck /\ gotA) THEN Fail("M2AtomTag")
     ELSE /\ atoms' = <<>> /\ gotA' = TRUE /\ cnt' = hdr.na /\ pc' = IF hdr.na > 0 THEN "atoms" ELSE "main"
          /\ ua' = 0                                            \* attributes live on the atom records
          /\ skip' = FALSE /\ Consume /\ Tick("M2AtomTag") /\ UNCHANGED <<tmp, hdr, bonds, gotB, out>>
M2AtomLine ==
  /\ fmt = "mol2" /\ pc = "atoms"
  /\ IF AtEof
       THEN IF Dev("EofEndsBlock")
              THEN pc' = "main" /\ Tick("M2AtomLine") /\ UNCHANGED <<pos, pb, cnt, tmp, hdr, atoms, gotA, bonds, gotB, ua, skip, out>>
              ELSE Fail("M2AtomLine")
       ELSE IF ~AtomOK(Cur, hdr.chg) THEN Fail("M2AtomLine")
            ELSE /\ atoms' = Append(atoms, CurIdx) /\ cnt' = cnt - 1 /\ pc' = IF cnt = 1 THEN "main" ELSE "atoms"
                 /\ Consume /\ Tick("M2AtomLine") /\ UNCHANGED <<tmp, hdr, gotA, bonds, gotB, ua, skip, out>>
M2BondTag ==
  /\ fmt = "mol2" /\ pc = "main" /\ ~AtEof /\ IsTag(Cur, "BOND")
  /\ IF hdr = NoHdr \/ hdr.nb < 0 \/ (RepeatCheck /\ gotB) THEN Fail("M2BondTag")
     ELSE /\ bonds' = <<>> /\ gotB' = TRUE /\ cnt' = hdr.nb /\ pc' = IF hdr.nb > 0 THEN "bonds" ELSE "main"
          /\ skip' = FALSE /\ Consume /\ Tick("M2BondTag") /\ UNCHANGED <<tmp, hdr, atoms, gotA, ua, out>>
M2BondLine ==
  /\ fmt = "mol2" /\ pc = "bonds"
  /\ IF AtEof
       THEN IF Dev("EofEndsBlock")
              THEN pc' = "main" /\ Tick("M2BondLine") /\ UNCHANGED <<pos, pb, cnt, tmp, hdr, atoms, gotA, bonds, gotB, ua, skip, out>>
              ELSE Fail("M2BondLine")
       ELSE IF ~BondOK(Cur) THEN Fail("M2BondLine")
            ELSE /\ bonds' = Append(bonds, CurIdx) /\ cnt' = cnt - 1 /\ pc' = IF cnt = 1 THEN "main" ELSE "bonds"
                 /\ Consume /\ Tick("M2BondLine") /\ UNCHANGED <<tmp, hdr, atoms, gotA, gotB, ua, skip, out>>

(* UNITY_ATOM_ATTR / UNITY_BOND_ATTR: "index n" then n "name value" lines, until the next tag (put back) *)
M2UnityTag ==
  /\ fmt = "mol2" /\ pc = "main" /\ ~AtEof /\ Cur.k = "tag" /\ Cur.t \in {"UNITY_ATOM_ATTR", "UNITY_BOND_ATTR"}
  /\ pc' = (IF Cur.t = "UNITY_ATOM_ATTR" THEN "uniA" ELSE "uniB") /\ skip' = FALSE
  /\ Consume /\ Tick("M2UnityTag") /\ UNCHANGED <<cnt, tmp, hdr, atoms, gotA, bonds, gotB, ua, out>>
M2UnityItem ==
  /\ fmt = "mol2" /\ pc \in {"uniA", "uniB"}
  /\ IF AtEof THEN Fail("M2UnityItem")
     ELSE /\ Cur.k # "tag"
          /\ LET n == IF pc = "uniA" THEN (IF gotA THEN Len(atoms) ELSE -1) ELSE (IF gotB THEN Len(bonds) ELSE -1)
             IN IF ~(Cur.k = "ints" /\ Len(Cur.c) = 2 /\ Cur.c[1] \in 1..n /\ Cur.c[2] >= 0) THEN Fail("M2UnityItem")
                ELSE /\ cnt' = Cur.c[2] /\ ua' = ua + 1
                     /\ pc' = IF Cur.c[2] = 0 THEN pc ELSE IF pc = "uniA" THEN "attA" ELSE "attB"
                     /\ Consume /\ Tick("M2UnityItem") /\ UNCHANGED <<tmp, hdr, atoms, gotA, bonds, gotB, skip, out>>
M2UnityPutBack ==
  /\ fmt = "mol2" /\ pc \in {"uniA", "uniB"} /\ ~AtEof /\ Cur.k = "tag"
  /\ PutBack /\ pc' = "main" /\ Tick("M2UnityPutBack") /\ UNCHANGED <<cnt, tmp, hdr, atoms, gotA, bonds, gotB, ua, skip, out>>
M2UnityAttr ==
  /\ fmt = "mol2" /\ pc \in {"attA", "attB"}
  /\ IF AtEof \/ Cur.nt # 2 THEN Fail("M2UnityAttr")
     ELSE /\ cnt' = cnt - 1 /\ pc' = IF cnt > 1 THEN pc ELSE IF pc = "attA" THEN "uniA" ELSE "uniB"
          /\ Consume /\ Tick("M2UnityAttr") /\ UNCHANGED <<tmp, hdr, atoms, gotA, bonds, gotB, ua, skip, out>>

M2OtherTag ==
  /\ fmt = "mol2" /\ pc = "main" /\ ~AtEof /\ Cur.k = "tag" /\ Cur.t \notin KnownTags
  /\ skip' = TRUE /\ Consume /\ Tick("M2OtherTag") /\ UNCHANGED <<pc, cnt, tmp, hdr, atoms, gotA, bonds, gotB, ua, out>>
M2Unexpected ==
  /\ fmt = "mol2" /\ pc = "main" /\ ~AtEof /\ Cur.k \notin {"blank", "cmt", "tag"}
  /\ IF skip THEN Consume /\ Tick("M2Unexpected") /\ UNCHANGED <<pc, cnt, tmp, hdr, atoms, gotA, bonds, gotB, ua, skip, out>>
     ELSE IF Dev("PutBackNoProgress")
            THEN PutBack /\ Tick("M2Unexpected") /\ UNCHANGED <<pc, cnt, tmp, hdr, atoms, gotA, bonds, gotB, ua, skip, out>>
            ELSE Fail("M2Unexpected")

(* ---- xyz ---- *)
XMol(n, ix) == LET as == [j \in 1..Len(ix) |-> TheLines[ix[j]]]
               IN [na |-> n, nc |-> Len(as), nb |-> 0, chg |-> FALSE, name |-> "", atoms |-> as, bonds |-> <<>>, dig |-> Content(as, <<>>, 0, "")]
XEof == /\ fmt = "xyz" /\ pc = "main" /\ AtEof /\ pc' = "done"
        /\ Tick("XEof") /\ UNCHANGED <<pos, pb, cnt, tmp, hdr, atoms, gotA, bonds, gotB, ua, skip, out>>
XCount ==
  /\ fmt = "xyz" /\ pc = "main" /\ ~AtEof
  /\ IF ~IsCount(Cur) THEN Fail("XCount")
     ELSE /\ cnt' = Cur.c[1] /\ tmp' = [na |-> Cur.c[1], nb |-> 0, chg |-> FALSE, name |-> ""] /\ pc' = "xc"
          /\ Consume /\ Tick("XCount") /\ UNCHANGED <<hdr, atoms, gotA, bonds, gotB, ua, skip, out>>
XComment ==
  /\ fmt = "xyz" /\ pc = "xc"
  /\ IF AtEof THEN Fail("XComment")
     ELSE /\ IF cnt = 0 /\ ~Dev("XyzCountNotEnforced")
               THEN out' = Append(out, XMol(0, <<>>)) /\ pc' = "main" ELSE out' = out /\ pc' = "xa"
          /\ atoms' = <<>> /\ Consume /\ Tick("XComment") /\ UNCHANGED <<cnt, tmp, hdr, gotA, bonds, gotB, ua, skip>>
XAtomLine ==
  /\ fmt = "xyz" /\ pc = "xa" /\ ~Dev("XyzCountNotEnforced")
  /\ IF AtEof
       THEN IF Dev("XyzEofEndsFrame")
              THEN /\ out' = Append(out, XMol(tmp.na, atoms)) /\ pc' = "main" /\ Tick("XAtomLine")
                   /\ UNCHANGED <<pos, pb, cnt, tmp, hdr, atoms, gotA, bonds, gotB, ua, skip>>
              ELSE Fail("XAtomLine")
       ELSE IF ~(Cur.k = "atom" /\ Cur.ok) THEN Fail("XAtomLine")
            ELSE /\ atoms' = Append(atoms, CurIdx) /\ cnt' = cnt - 1
                 /\ IF cnt = 1 THEN out' = Append(out, XMol(tmp.na, atoms')) /\ pc' = "main" ELSE out' = out /\ pc' = "xa"
                 /\ Consume /\ Tick("XAtomLine") /\ UNCHANGED <<tmp, hdr, gotA, bonds, gotB, ua, skip>>
(* deviation: atom lines are taken as long as they come *)
XAtomGreedy ==
  /\ fmt = "xyz" /\ pc = "xa" /\ Dev("XyzCountNotEnforced")
  /\ IF ~AtEof /\ Cur.k = "atom" /\ Cur.ok
       THEN /\ atoms' = Append(atoms, CurIdx) /\ Consume /\ Tick("XAtomGreedy")
            /\ UNCHANGED <<pc, cnt, tmp, hdr, gotA, bonds, gotB, ua, skip, out>>
       ELSE /\ out' = Append(out, XMol(Len(atoms), atoms)) /\ pc' = "main" /\ Tick("XAtomGreedy")
            /\ UNCHANGED <<pos, pb, cnt, tmp, hdr, atoms, gotA, bonds, gotB, ua, skip>>

ReaderNext == \/ M2Eof \/ M2Skip \/ M2Molecule \/ M2HdrLine \/ M2HdrCounts \/ M2HdrStatus \/ M2HdrPutBack
              \/ M2HdrComment \/ M2AtomTag \/ M2AtomLine \/ M2BondTag \/ M2BondLine \/ M2UnityTag \/ M2UnityItem
              \/ M2UnityPutBack \/ M2UnityAttr \/ M2OtherTag \/ M2Unexpected
              \/ XEof \/ XCount \/ XComment \/ XAtomLine \/ XAtomGreedy

(* ------------------------------ the clauses of C10 ---------------------------- *)
(* a result is an exception or a sequence of complete molecules with the content of the undamaged text *)
ErrorOrComplete == pc = "done" => RetOK(out, ref, Declared(fmt, TheLines))
(* the undamaged text is read completely (keeps the model honest: it may not reject everything) *)
GoodAccepted    == (dmg.op = "none" /\ ~Running) => (pc = "done" /\ Len(out) = Len(ref) /\ RetOK(out, ref, Declared(fmt, TheLines)))
(* every step consumes a line, finishes, or hands one looked-ahead line back once *)
Terminates      == steps <= 2 * Len(TheLines) + 3
=============================================================================
