------------------------------- MODULE KVMap -------------------------------
(* The statement of C02 as a specification: a library file is an insert-only   *)
(* key-value map with immutable headers.  Everything else (handles, tables of  *)
(* contents, write queues, sessions) must refine this.                         *)
EXTENDS Naturals, FiniteSets, TLC
CONSTANTS Key, Val, KeyLen, Hdr, NoHdr,
          AllowClear   \* TRUE only in the grown model with truncate(): the map may be emptied as a whole
VARIABLES store,   \* [exists |-> BOOLEAN, hdr |-> Hdr \cup {NoHdr}, map |-> [SUBSET Key -> Val]]
          dummy
kvvars == <<store>>

KVInit == store = [exists |-> FALSE, hdr |-> NoHdr, map |-> <<>>]

KVCreate(hd) == /\ ~store.exists
                /\ store' = [exists |-> TRUE, hdr |-> hd, map |-> <<>>]

KVPut(k, v) == /\ store.exists
               /\ k \notin DOMAIN store.map
               /\ KeyLen[k] <= 255
               /\ store' = [store EXCEPT !.map = @ @@ (k :> v)]

KVClear == /\ AllowClear /\ store.exists
           /\ store' = [store EXCEPT !.map = <<>>]

KVNext == \/ \E hd \in Hdr : KVCreate(hd)
          \/ \E k \in Key, v \in Val : KVPut(k, v)
          \/ KVClear

KVSpec == KVInit /\ [][KVNext]_kvvars

(* consequences that are checked on the refinements directly                   *)
InsertOnly == [][\A k \in DOMAIN store.map : k \in DOMAIN store'.map /\ store'.map[k] = store.map[k]]_kvvars
HeaderConstant == [][store.exists => (store'.exists /\ store'.hdr = store.hdr)]_kvvars
=============================================================================
