---------------------------- MODULE MCLibCodecT ----------------------------
(* Thorough-tier pool of MCLibCodec (kept in its own module because TLC        *)
(* evaluates every constant definition at start-up).                           *)
EXTENDS MCLibCodecQ
(* the full single-variation families + every PAIR of atom variants (positions 1 and 3 of a three-atom molecule) + every pair of bond    *)
(* variants (two bonds of a three-atom, two-conformer ensemble)                                            *)
PoolT == PoolOf("Molecule") \cup PoolOf("ConformerEnsemble") \cup PairFamily("Molecule") \cup BondPairFamily("ConformerEnsemble")
=============================================================================
