----------------------------- MODULE MCDirMap -----------------------------
EXTENDS DirMap, Json
KeysQ == {"k1", "k2", "kSl"}
KeysT == {"k1", "k2", "kSl", "kBig", "kE"}       \* kSl = "x/y", kBig = 256 characters, kE = the empty key
KOK   == {"k1", "k2", "kE"}
KErr  == [k \in KeysT |-> CASE k = "kSl" -> "FileNotFoundError" [] k = "kBig" -> "OSError" [] OTHER -> "none"]
KLen  == [k \in KeysT |-> CASE k = "k1" -> 2 [] k = "k2" -> 2 [] k = "kSl" -> 3 [] k = "kBig" -> 256 [] k = "kE" -> 0]
ValsQ == {"vE", "v1"}
ValsT == {"vE", "v1", "v1b"}
VLen  == [v \in ValsT |-> CASE v = "vE" -> 0 [] v = "v1" -> 3 [] v = "v1b" -> 3]
C1    == {"c1"}
C2    == {"c1", "c2"}
ROrw  == [c \in C2 |-> FALSE]
ROmix == [c \in C2 |-> c = "c2"]
BufM1 == [c \in C2 |-> -1]
BufS  == [c \in C2 |-> 6]
BufL  == [c \in C2 |-> 100000]
BufMix == [c \in C2 |-> IF c = "c1" THEN 100000 ELSE -1]
DevNone == {}
DevNoVal == {"NoKeyValidation"}
DevFirst == {"FirstQueuedWins"}
DevCode  == {"NoKeyValidation", "FirstQueuedWins"}
View == sv
Emit == PrintT(ToJson([from |-> sv, act |-> last', to |-> sv', obs |-> Obs']))
=============================================================================
