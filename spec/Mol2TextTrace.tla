--------------------------- MODULE Mol2TextTrace ---------------------------
(* Trace validation for C07 (batched, DESIGN 2.2).                             *)
(*                                                                             *)
(* Structure traces: build / write / read / write2 / read2 [/ edit / write /   *)
(* read ...] events recorded, interleaved with history events (unrelated calls *)
(* of the public API, stuttering steps) and reread events (the same text read  *)
(* once more: must give the same object)                                       *)
(* from real dumps_mol2 / loads_mol2 / loads_all_mol2 calls.  Each event is    *)
(* the corresponding Do* step of Mol2Text with the OBSERVED outcome, and the   *)
(* step is a step of the specification only if the contract of Mol2Text holds  *)
(* in the state it leads to (Contract').                                       *)
(* Typing traces: one atype event per element x atom type x geometry triple    *)
(* (token emitted by get_mol2_type, atom produced by set_mol2_type on a fresh  *)
(* atom, token emitted again) and one btype event per bond type; they must     *)
(* satisfy AtomTypingContract / BondTypingContract.  Where the observed token  *)
(* differs from the reference model EmitAtom a MODELDIFF line is printed       *)
(* (information only: the property does not fix the spelling).                 *)
(* Clauses: the contract clauses switched on (all of them for the verdict; one *)
(* at a time when the harness asks TLC which clause rejects a trace).          *)
EXTENDS Mol2Text, Json, IOUtils, TLCExt
CONSTANT Clauses
VARIABLES ti, l
tvars == <<vars, ti, l>>
Traces == ndJsonDeserialize(IOEnv.TRACE_FILE)
NT == Len(Traces)
Tr == Traces[ti].ev
Ev == Tr[l]

On(n, P) == n \notin Clauses \/ P
Selected == /\ On("WriteSucceeds", WriteSucceeds) /\ On("Accepted", Accepted)
            /\ On("ConformersPreserved", ConformersPreserved) /\ On("NamePreserved", NamePreserved)
            /\ On("AtomsPreserved", AtomsPreserved) /\ On("LabelsPreserved", LabelsPreserved)
            /\ On("CoordsPreserved", CoordsPreserved) /\ On("ChargesPreserved", ChargesPreserved)
            /\ On("BondsPreserved", BondsPreserved) /\ On("TextFixedPoint", TextFixedPoint)
            /\ On("ReadStable", ReadStable) /\ On("RereadSame", RereadSame)

TBuild  == Ev.ev = "build"  /\ DoBuild(Ev.obj)
TWrite  == Ev.ev = "write"  /\ DoWrite(Ev.res)
TRead   == Ev.ev = "read"   /\ DoRead(Ev.res)
TWrite2 == Ev.ev = "write2" /\ DoWrite2(Ev.res)
TRead2  == Ev.ev = "read2"  /\ DoRead2(Ev.res)
TEdit   == Ev.ev = "edit"   /\ DoEdit(Ev.obj)       \* the same real object, edited, as seen through its accessors
TReread == Ev.ev = "reread" /\ DoReread(Ev.res)     \* the same first text read once more
THistory == Ev.ev = "history" /\ UNCHANGED vars     \* unrelated calls of the public API: a stuttering step, wherever it occurs
TAtype  == /\ Ev.ev = "atype"
           /\ On("AtomTyping", AtomTypingContract(Ev.el, Ev.tok, Ev.res, Ev.tok2))
           /\ IF Ev.tok = EmitAtom([el |-> Ev.el, at |-> Ev.at, g |-> Ev.g]) THEN TRUE
              ELSE PrintT(<<"MODELDIFF", Ev.el, Ev.at, Ev.g, Ev.tok.pre, Ev.tok.suf>>)
           /\ UNCHANGED vars
TBtype  == /\ Ev.ev = "btype"
           /\ On("BondTyping", BondTypingContract(Ev.bt, Ev.tok, Ev.res, Ev.tok2))
           /\ IF Ev.tok = EmitBond(Ev.bt) THEN TRUE
              ELSE PrintT(<<"MODELDIFF", "bond", Ev.bt, Ev.tok>>)
           /\ UNCHANGED vars

Step == /\ ti <= NT /\ l <= Len(Tr)
        /\ (TBuild \/ TWrite \/ TRead \/ TWrite2 \/ TRead2 \/ TEdit \/ TReread \/ THistory \/ TAtype \/ TBtype)
        /\ Selected'                                  \* every clause holds after the observed step
        /\ l' = l + 1 /\ ti' = ti

Reset == /\ again' = Nothing /\ hist' = FALSE /\ edits' = 0 /\ pend' = NoPend /\ rec' = NoRec /\ phase' = 0 /\ obj' = NoObj /\ text' = Nothing /\ back' = Nothing
         /\ text2' = Nothing /\ back2' = Nothing /\ last' = [act |-> "init"]
NextTrace == ti' = ti + 1 /\ l' = 1 /\ Reset
Finish == /\ ti <= NT /\ l = Len(Tr) + 1
          /\ PrintT(<<"VERDICT", Traces[ti].tid, "ACCEPT">>)
          /\ NextTrace
Stuck  == /\ ti <= NT /\ l <= Len(Tr) /\ ~ENABLED Step
          /\ PrintT(<<"VERDICT", Traces[ti].tid, "STUCK", l>>)
          /\ NextTrace
TraceInit == Init /\ ti = 1 /\ l = 1
TraceNext == Step \/ Finish \/ Stuck
TraceSpec == TraceInit /\ [][TraceNext]_tvars

Empty == {}
NoSeq == <<>>
AllClauses == {"WriteSucceeds", "Accepted", "ConformersPreserved", "NamePreserved", "AtomsPreserved", "LabelsPreserved",
               "CoordsPreserved", "ChargesPreserved", "BondsPreserved", "TextFixedPoint", "ReadStable", "RereadSame",
               "AtomTyping", "BondTyping"}
=============================================================================
