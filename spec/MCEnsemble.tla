----------------------------- MODULE MCEnsemble -----------------------------
(* Model-checking wrapper of Ensemble.tla: argument pools, slices, emitter.    *)
(* Coordinates in units of 0.25 A (exact in float32; the adapter multiplies by *)
(* 250000 micro-Angstrom), charges in 1e-3 e, weights in 1e-3.                 *)
EXTENDS Ensemble, Json
m1 == [na |-> 2, nb |-> 1, g |-> <<<<0, 0, 0>>, <<6, 0, 0>>>>, q |-> <<125, -125>>]
m2 == [na |-> 2, nb |-> 1, g |-> <<<<1, 2, -3>>, <<0, 5, 4>>>>, q |-> <<-250, 375>>]
m3 == [na |-> 2, nb |-> 1, g |-> <<<<-4, 1, 0>>, <<2, -2, 8>>>>, q |-> <<500, 0>>]
x1 == [na |-> 1, nb |-> 0, g |-> <<<<2, -1, 3>>>>, q |-> <<-875>>]

x0 == [na |-> 0, nb |-> 0, g |-> <<>>, q |-> <<>>]                 \* a molecule without atoms
Pool1  == <<m1>>
Pool2  == <<m1, m2>>
Pool2x0 == <<m1, m2, x1, x0>>
Pool2x == <<m1, m2, x1>>
Pool3  == <<m1, m2, m3>>
Pool3x == <<m1, m2, m3, x1>>
Pool3x0 == <<m1, m2, m3, x1, x0>>

Rz   == <<<<0, 1, 0>>, <<-1, 0, 0>>, <<0, 0, 1>>>>        \* quarter turn about z
Rx   == <<<<1, 0, 0>>, <<0, 0, -1>>, <<0, 1, 0>>>>        \* the matrix of the docstring example
Rots1 == {Rz}
Rots2 == {Rz, Rx}
Vecs1 == {<<4, -2, 1>>}
Vecs2 == {<<4, -2, 1>>, <<0, 0, -8>>}
Facs1 == {2}
Facs2 == {2, 3}
Ws1   == {500}
Ws2   == {500, 2250}
It1   == {"i1"}
It2   == {"i1", "i2"}
It3   == {"i1", "i2", "i3"}

OpsAll   == {"grow", "iter", "view", "xform", "dump", "io", "copy"}
OpsNoCopy == {"grow", "iter", "view", "xform", "dump", "io"}
OpsMix   == {"grow", "iter", "view", "xform", "dump", "copy"}
OpsLive  == {"append", "view", "xform"}
OpsCopy  == {"copy", "view", "xform"}
OpsCopyV == {"copy", "view"}
OpsCopyX == {"copy", "xform"}
OpsGrow  == {"grow", "dump"}
OpsIter  == {"iter", "dump"}
OpsView  == {"view", "xform", "dump"}
OpsIO    == {"grow", "io"}

FreeAll  == {"qown", "qzero", "wsrc", "wone", "adopt", "refuse", "ext0ok", "ext0err"}

DevNone     == {}
DevCoords   == {"CoordsOnlyGrow"}
DevCursor   == {"SharedCursor"}
DevCopy     == {"ViewIsCopy"}
DevAllRows  == {"WriteHitsAllRows"}
DevQRO      == {"ChargeViewReadOnly"}
DevScaleQ   == {"ScaleTouchesCharges"}
DevTrFirst  == {"TranslateFirstOnly"}
DevCopyW    == {"CopyLosesWeights"}
DevShare    == {"CopySharesBuffers"}
DevStack    == {"StackBroadcasts"}
DevYield    == {"YieldReusesView"}
DevOrphan   == {"GrowthOrphansViews"}

View == sv
Emit == PrintT(ToJson([from |-> sv, act |-> last', to |-> sv', obs |-> Obs']))
=============================================================================
