------------------------------ MODULE Ensemble ------------------------------
(* C14: a conformer ensemble stays rectangular and its conformers are live     *)
(* views.  Model of molli/chem/ensemble.py (ConformerEnsemble, Conformer).      *)
(*                                                                              *)
(* One ensemble object `ens` with its three parallel per-conformer arrays      *)
(*   C : Seq(row)  row = Seq(<<x,y,z>>)  coordinates, integers in micro-Angstrom*)
(*   Q : Seq(Seq(Int))                   partial charges, integers in 1e-3 e    *)
(*   W : Seq(Int)                        weights, integers in 1e-3              *)
(* the constitution (na atoms, nb bonds) and iterator objects `its`.  One      *)
(* action per public call; every action takes its arguments as VALUES, so the  *)
(* same actions are used by the model checker (arguments from small pools, see *)
(* Next) and by the trace specification (arguments from recorded events).      *)
(* All arithmetic of the collective transformations is done here, in integers. *)
(*                                                                              *)
(* Left free on purpose (property does not state it): the charge row given to  *)
(* an appended geometry (its own charges or zeros), the weights given to rows  *)
(* taken from another ensemble (its weights or 1), whether extend([]) raises,  *)
(* whether an ensemble WITHOUT ATOMS refuses its first conformer or adopts its *)
(* constitution, what a RUNNING iterator does when the number of conformers    *)
(* changes (it is abandoned), exception classes.  NOT free: a conformer object  *)
(* the caller holds (from ens[i], a slice, an iteration) is a view of its row   *)
(* for as long as the ensemble lives - across append/extend, transformations    *)
(* and whole-array assignments.                                                 *)
EXTENDS Integers, Sequences, FiniteSets, TLC
CONSTANTS Iter,        \* iterator objects
          MaxConf,     \* bound on conformers (guard of the growing actions)
          MaxT,        \* bound on row mutations (transformations, writes through views) per behaviour
          Ops,         \* action groups enabled: "grow" "iter" "view" "xform" "dump" "io"
          MolPool,     \* sequence of molecules [na, nb, g, q] offered as arguments by Next
          VecPool, RotPool, FacPool, WPool,   \* translation vectors, 3x3 integer matrices, scale factors, weights
          Free,        \* which of the behaviours the property leaves free are offered: "qown" "qzero" (charge row of an
                       \* appended geometry), "wsrc" "wone" (weights of rows from another ensemble), "adopt" "refuse" (first
                       \* conformer of an ensemble without atoms), "ext0ok" "ext0err" (extend by nothing); TLC checks with all
          Deviations   \* named wrong behaviours (non-vacuity; formal description of the findings)
VARIABLES ens,   \* [made, na, nb, C, Q, W, S]   S = [made, C, Q, W]: the arrays of the ensemble this one was
                 \*                              copy-constructed from (that object stays alive and is observed)
          its,   \* [Iter -> [pos : -1..MaxConf, seen : Seq(Nat), views : Seq(Nat)]]   pos = -1: no such iterator;
                 \* views[j] = the row that the conformer yielded at step j (kept by the caller) shows now
          nt,    \* row mutations so far
          last   \* observation: the call just made, its arguments and outcome (not part of the VIEW)
vars == <<ens, its, nt, last>>
sv   == <<ens, its, nt>>

On(g)   == g \in Ops
W1      == 1000
NoSrc   == [made |-> FALSE, C |-> <<>>, Q |-> <<>>, W |-> <<>>]
NoEns   == [made |-> FALSE, na |-> 0, nb |-> 0, C |-> <<>>, Q |-> <<>>, W |-> <<>>, S |-> NoSrc]
NoIt    == [pos |-> -1, seen |-> <<>>, views |-> <<>>]
Ones(n)  == [i \in 1..n |-> W1]
Zeros(n) == [i \in 1..n |-> 0]
N       == Len(ens.C)
Rect(e) == /\ Len(e.Q) = Len(e.C) /\ Len(e.W) = Len(e.C)
           /\ \A i \in 1..Len(e.C) : Len(e.C[i]) = e.na
           /\ \A i \in 1..Len(e.Q) : Len(e.Q[i]) = e.na
SameNa(ms, k) == \A i \in 1..Len(ms) : ms[i].na = k
RowsOK(rows, k) == \A i \in 1..Len(rows) : Len(rows[i]) = k

(* ---- integer geometry -------------------------------------------------- *)
AddV(p, v) == <<p[1] + v[1], p[2] + v[2], p[3] + v[3]>>
SubV(p, v) == <<p[1] - v[1], p[2] - v[2], p[3] - v[3]>>
MulP(p, f) == <<p[1] * f, p[2] * f, p[3] * f>>
RotP(p, R) == <<p[1]*R[1][1] + p[2]*R[2][1] + p[3]*R[3][1],        \* row vector times matrix: coords @ R
                p[1]*R[1][2] + p[2]*R[2][2] + p[3]*R[3][2],
                p[1]*R[1][3] + p[2]*R[2][3] + p[3]*R[3][3]>>
MapRow(row, F(_)) == [a \in 1..Len(row) |-> F(row[a])]
MapAll(CC, F(_))  == [i \in 1..Len(CC) |-> MapRow(CC[i], F)]

Init == ens = NoEns /\ its = [it \in Iter |-> NoIt] /\ nt = 0 /\ last = [act |-> "init", out |-> "ok"]

Note(a, o)  == last' = a @@ [out |-> o]
DropIts     == its' = [it \in Iter |-> NoIt]
Fail(a)     == UNCHANGED sv /\ Note(a, "error")
(* append / extend abandon the running iterations (what a live iterator does when the ensemble grows is left *)
(* free) - but every conformer the caller already holds stays a view of its row: rows are only added behind *)
RetireIts   == its' = [it \in Iter |-> [its[it] EXCEPT !.pos = -1,
                                                      !.views = IF "GrowthOrphansViews" \in Deviations THEN [j \in 1..Len(@) |-> 0] ELSE @]]
FailRetire(a) == UNCHANGED <<ens, nt>> /\ RetireIts /\ Note(a, "error")
Fresh(e, a) == ens' = e /\ DropIts /\ UNCHANGED nt /\ Note(a, "ok")

(* ---- constructors ------------------------------------------------------- *)
(* ConformerEnsemble([elements], n_conformers = n), then both arrays assigned  *)
(* through the ensemble's setters (a new ensemble holds NaN / 0 rows)          *)
(* form "none": ConformerEnsemble(n_conformers = n, n_atoms = a)   - a blank atoms                    *)
(* form "list": ConformerEnsemble([k elements], n_conformers = n, n_atoms = a) - the list decides, a is *)
(* ignored.  Boundary values matter: no atoms with conformers, atoms without conformers, k = 0 ([])     *)
NewAtoms(form, k, a, fc, fq) ==
  LET na == IF form = "none" THEN a ELSE k IN
  /\ On("grow") /\ ~ens.made /\ form \in {"none", "list"} /\ (form = "none" => k = 0)
  /\ Len(fc) <= MaxConf /\ Len(fq) = Len(fc) /\ RowsOK(fc, na) /\ RowsOK(fq, na)
  /\ Fresh([made |-> TRUE, na |-> na, nb |-> 0,  C |-> fc, Q |-> fq, W |-> Ones(Len(fc)), S |-> NoSrc],
           [act |-> "newatoms", form |-> form, k |-> k, a |-> a, C |-> fc, Q |-> fq])
(* ConformerEnsemble(mol, n_conformers = n, n_atoms = a): n = 0 gives one conformer, a is ignored *)
NewMol(m, n, a, fc, fq) ==
  /\ On("grow") /\ ~ens.made /\ Len(fc) = (IF n = 0 THEN 1 ELSE n) /\ Len(fc) <= MaxConf /\ Len(fq) = Len(fc)
  /\ RowsOK(fc, m.na) /\ RowsOK(fq, m.na)
  /\ Fresh([made |-> TRUE, na |-> m.na, nb |-> m.nb,  C |-> fc, Q |-> fq, W |-> Ones(Len(fc)), S |-> NoSrc],
           [act |-> "newmol", m |-> m, n |-> n, a |-> a, C |-> fc, Q |-> fq])
(* ConformerEnsemble([mol, ...], n_conformers = n): the list decides, n is ignored *)
NewList(ms, n) ==
  /\ ~ens.made /\ Len(ms) \in 1..MaxConf /\ SameNa(ms, ms[1].na)
  /\ Fresh([made |-> TRUE, na |-> ms[1].na, nb |-> ms[1].nb, C |-> [i \in 1..Len(ms) |-> ms[i].g],
            Q |-> [i \in 1..Len(ms) |-> ms[i].q], W |-> Ones(Len(ms)), S |-> NoSrc],
           [act |-> "newlist", ms |-> ms, n |-> n])
(* ConformerEnsemble(ens): the new object becomes the ensemble under test, the *)
(* old one stays alive as its source S; they must not share anything; an        *)
(* explicit n_conformers = n is ignored, the source decides                     *)
SrcOf(e) == [made |-> TRUE, C |-> e.C, Q |-> e.Q, W |-> e.W]
NewCopy(n) ==
  /\ On("copy") /\ ens.made
  /\ IF "CopyLosesWeights" \in Deviations
       THEN Fresh([ens EXCEPT !.W = Ones(Len(ens.C)), !.S = SrcOf(ens)], [act |-> "newcopy", n |-> n])
       ELSE Fresh([ens EXCEPT !.S = SrcOf(ens)], [act |-> "newcopy", n |-> n])

(* ---- append / extend ---------------------------------------------------- *)
NoAtoms == ens.na = 0 /\ N = 0
Grown(cs, qs, ws) ==
  IF "CoordsOnlyGrow" \in Deviations THEN [ens EXCEPT !.C = @ \o cs]
  ELSE [ens EXCEPT !.C = @ \o cs, !.Q = @ \o qs, !.W = @ \o ws]
Adopted(k, b, cs, qs, ws) ==
  IF "CoordsOnlyGrow" \in Deviations THEN [ens EXCEPT !.C = cs]
  ELSE [ens EXCEPT !.na = k, !.nb = b, !.C = cs, !.Q = qs, !.W = ws]
(* rows cs (with charge rows qs0 and weights ws0 at the source) arrive          *)
QChoice(k, n, qs0) == (IF "qown" \in Free THEN {qs0} ELSE {}) \cup (IF "qzero" \in Free THEN {[i \in 1..n |-> Zeros(k)]} ELSE {})
WChoice(n, ws0)    == (IF "wsrc" \in Free THEN {ws0} ELSE {}) \cup (IF "wone" \in Free THEN {Ones(n)} ELSE {})
Grow(a, k, b, cs, qs0, ws0) ==
  /\ ens.made
  /\ IF Len(cs) = 0
       THEN \/ "ext0err" \in Free /\ FailRetire(a)
            \/ "ext0ok" \in Free /\ UNCHANGED <<ens, nt>> /\ RetireIts /\ Note(a, "ok")
     ELSE IF NoAtoms /\ k > 0
       THEN \/ "refuse" \in Free /\ FailRetire(a)
            \/ /\ "adopt" \in Free /\ Len(cs) <= MaxConf
               /\ \E qs \in QChoice(k, Len(cs), qs0), ws \in WChoice(Len(cs), ws0) :
                    ens' = Adopted(k, b, cs, qs, ws) /\ RetireIts /\ UNCHANGED nt /\ Note(a, "ok")
     ELSE IF k # ens.na
       THEN FailRetire(a)
     ELSE /\ N + Len(cs) <= MaxConf
          /\ \E qs \in QChoice(k, Len(cs), qs0), ws \in WChoice(Len(cs), ws0) :
               ens' = Grown(cs, qs, ws) /\ RetireIts /\ UNCHANGED nt /\ Note(a, "ok")

AppendC(m) == (On("grow") \/ On("iter") \/ On("append")) /\ Grow([act |-> "append", m |-> m], m.na, m.nb, <<m.g>>, <<m.q>>, <<W1>>)
ExtendList(ms) ==
  /\ (On("grow") \/ On("append")) /\ SameNa(ms, IF Len(ms) = 0 THEN 0 ELSE ms[1].na)
  /\ Grow([act |-> "extlist", ms |-> ms], IF Len(ms) = 0 THEN ens.na ELSE ms[1].na, IF Len(ms) = 0 THEN 0 ELSE ms[1].nb,
          [i \in 1..Len(ms) |-> ms[i].g], [i \in 1..Len(ms) |-> ms[i].q], Ones(Len(ms)))
(* extend(other ensemble); how = "self" is ens.extend(ens)                     *)
ExtendEns(o, how) ==
  /\ On("grow")
  /\ how = "self" => o = [na |-> ens.na, nb |-> ens.nb, C |-> ens.C, Q |-> ens.Q, W |-> ens.W]
  /\ Grow([act |-> "extens", how |-> how, o |-> o], o.na, o.nb, o.C, o.Q, o.W)

(* ---- collective transformations: every coordinate row, nothing else ----- *)
Xform(a, CC) ==
  /\ ens.made /\ nt < MaxT /\ nt' = nt + 1
  /\ ens' = [ens EXCEPT !.C = CC] /\ UNCHANGED its /\ Note(a, "ok")
Scale(f) ==
  /\ f > 0
  /\ IF "ScaleTouchesCharges" \in Deviations
       THEN /\ On("xform") /\ ens.made /\ nt < MaxT /\ nt' = nt + 1 /\ UNCHANGED its /\ Note([act |-> "scale", f |-> f], "ok")
            /\ ens' = [ens EXCEPT !.C = MapAll(ens.C, LAMBDA p : MulP(p, f)),
                                  !.Q = [i \in 1..Len(ens.Q) |-> [a \in 1..Len(ens.Q[i]) |-> ens.Q[i][a] * f]]]
       ELSE On("xform") /\ Xform([act |-> "scale", f |-> f], MapAll(ens.C, LAMBDA p : MulP(p, f)))
Invert       == On("xform") /\ Xform([act |-> "invert"], MapAll(ens.C, LAMBDA p : MulP(p, -1)))
Translate(v) == On("xform") /\ Xform([act |-> "translate", v |-> v],
                      IF "TranslateFirstOnly" \in Deviations
                        THEN [i \in 1..N |-> IF i = 1 THEN MapRow(ens.C[i], LAMBDA p : AddV(p, v)) ELSE ens.C[i]]
                        ELSE MapAll(ens.C, LAMBDA p : AddV(p, v)))
Rotate(R)    == On("xform") /\ Xform([act |-> "rotate", R |-> R], MapAll(ens.C, LAMBDA p : RotP(p, R)))
(* center_at_atom(atom a): each conformer is moved by its own vector            *)
CenterAt(a)  == /\ On("xform") /\ a \in 1..ens.na
                /\ Xform([act |-> "center", a |-> a],
                         [i \in 1..N |-> MapRow(ens.C[i], LAMBDA p : SubV(p, ens.C[i][a]))])

(* rotate(stack of k matrices) / translate(k vectors): one per conformer (this is  *)
(* what align_to_ref_coords and center_at_atom pass); any other k >= 2 must be     *)
(* refused - broadcasting one conformer to k would leave charges and weights behind *)
StackOK(xs) == Len(xs) >= 1 /\ (Len(xs) # 1 \/ N = 1)
Stacked(a, xs, F(_, _)) ==
  /\ On("xform") /\ ens.made /\ StackOK(xs) /\ nt < MaxT
  /\ IF Len(xs) = N THEN Xform(a, [i \in 1..N |-> MapRow(ens.C[i], LAMBDA p : F(p, xs[i]))])
     ELSE IF "StackBroadcasts" \in Deviations /\ N = 1
       THEN /\ ens' = [ens EXCEPT !.C = [i \in 1..Len(xs) |-> MapRow(ens.C[1], LAMBDA p : F(p, xs[i]))]]
            /\ nt' = nt + 1 /\ UNCHANGED its /\ Note(a, "ok")
     ELSE Fail(a)
RotateStack(Rs)    == On("xform") /\ Stacked([act |-> "rotstack", Rs |-> Rs], Rs, RotP)
TranslateStack(vs) == On("xform") /\ Stacked([act |-> "trstack", vs |-> vs], vs, AddV)

(* ---- a conformer ens[i] is a view of row i ------------------------------ *)
VOK(i) == ens.made /\ i \in 1..N
VW(i)  == On("view") /\ VOK(i)
Mut    == nt < MaxT /\ nt' = nt + 1 /\ UNCHANGED its          \* one more mutation of the rows
VWriteC(i, row) ==                                   \* ens[i].coords = row
  LET a == [act |-> "vwc", i |-> i, row |-> row] IN
  /\ VW(i) /\ Len(row) = ens.na /\ Mut
  /\ CASE "ViewIsCopy" \in Deviations -> UNCHANGED ens /\ Note(a, "ok")
       [] "WriteHitsAllRows" \in Deviations -> ens' = [ens EXCEPT !.C = [j \in 1..N |-> row]] /\ Note(a, "ok")
       [] "CopySharesBuffers" \in Deviations /\ ens.S.made /\ i <= Len(ens.S.C) ->
            ens' = [ens EXCEPT !.C[i] = row, !.S.C[i] = row] /\ Note(a, "ok")
       [] OTHER -> ens' = [ens EXCEPT !.C[i] = row] /\ Note(a, "ok")
VWriteQ(i, qrow) ==                                  \* ens[i].atomic_charges = qrow
  LET a == [act |-> "vwq", i |-> i, row |-> qrow] IN
  /\ VW(i) /\ Len(qrow) = ens.na /\ Mut
  /\ IF "ChargeViewReadOnly" \in Deviations THEN UNCHANGED ens /\ Note(a, "error")
     ELSE ens' = [ens EXCEPT !.Q[i] = qrow] /\ Note(a, "ok")
VSetAtom(i, b, p) ==                                 \* ens[i].coords[b] = p   (write into the array that was read)
  /\ VW(i) /\ b \in 1..ens.na /\ Mut
  /\ ens' = [ens EXCEPT !.C[i][b] = p] /\ Note([act |-> "vsa", i |-> i, b |-> b, p |-> p], "ok")
VTranslate(i, v) ==                                  \* ens[i].translate(v): a Molecule method through the view
  /\ VW(i) /\ Mut
  /\ ens' = [ens EXCEPT !.C[i] = MapRow(@, LAMBDA p : AddV(p, v))]
  /\ Note([act |-> "vtr", i |-> i, v |-> v], "ok")
SetW(i, w) ==                                        \* ens.weights[i] = w
  /\ VW(i) /\ i <= Len(ens.W) /\ Mut
  /\ ens' = [ens EXCEPT !.W[i] = w] /\ Note([act |-> "setw", i |-> i, w |-> w], "ok")

(* ens.coords = X / ens.atomic_charges = X / ens.weights = X: whole-array assignment  *)
AssignC(CC) == /\ On("view") /\ ens.made /\ Len(CC) = N /\ RowsOK(CC, ens.na) /\ Mut
               /\ ens' = [ens EXCEPT !.C = CC] /\ Note([act |-> "asc", X |-> CC], "ok")
AssignQ(QQ) == /\ On("view") /\ ens.made /\ Len(QQ) = N /\ RowsOK(QQ, ens.na) /\ Len(ens.Q) = N /\ Mut
               /\ ens' = [ens EXCEPT !.Q = QQ] /\ Note([act |-> "asq", X |-> QQ], "ok")
AssignW(ws) == /\ On("view") /\ ens.made /\ Len(ws) = N /\ Len(ens.W) = N /\ Mut
               /\ ens' = [ens EXCEPT !.W = ws] /\ Note([act |-> "asw", X |-> ws], "ok")

(* ---- writes through the SOURCE of a copy-constructed ensemble ------------- *)
SOK(i) == On("copy") /\ ens.made /\ ens.S.made /\ i \in 1..Len(ens.S.C)
SrcWriteC(i, row) == /\ SOK(i) /\ Len(row) = ens.na /\ Mut              \* src[i].coords = row
                     /\ ens' = [ens EXCEPT !.S.C[i] = row] /\ Note([act |-> "swc", i |-> i, row |-> row], "ok")
SrcWriteQ(i, qrow) == /\ SOK(i) /\ Len(qrow) = ens.na /\ Mut            \* src[i].atomic_charges = qrow
                      /\ ens' = [ens EXCEPT !.S.Q[i] = qrow] /\ Note([act |-> "swq", i |-> i, row |-> qrow], "ok")
SrcSetW(i, w) == /\ SOK(i) /\ Mut                                       \* src.weights[i] = w
                 /\ ens' = [ens EXCEPT !.S.W[i] = w] /\ Note([act |-> "ssw", i |-> i, w |-> w], "ok")
SrcTranslate(v) == /\ On("copy") /\ ens.made /\ ens.S.made /\ Mut      \* src.translate(v)
                   /\ ens' = [ens EXCEPT !.S.C = MapAll(@, LAMBDA p : AddV(p, v))]
                   /\ Note([act |-> "str", v |-> v], "ok")

(* ---- iteration: every iter(ens) has its own cursor ----------------------- *)
Started == {it \in Iter : its[it].pos >= 0}
StartIter(it) ==
  /\ On("iter") /\ ens.made /\ UNCHANGED <<ens, nt>>
  /\ its' = [x \in Iter |-> IF x = it THEN [pos |-> 0, seen |-> <<>>, views |-> <<>>]
                            ELSE IF "SharedCursor" \in Deviations /\ x \in Started THEN [its[x] EXCEPT !.pos = 0]
                            ELSE its[x]]
  /\ Note([act |-> "start", it |-> it], "ok")
RowVal(p) == [c |-> ens.C[p], q |-> IF p <= Len(ens.Q) THEN ens.Q[p] ELSE <<>>]
NextIt(it) ==
  LET a == [act |-> "next", it |-> it]  p == its[it].pos IN
  /\ On("iter") /\ ens.made /\ p >= 0 /\ UNCHANGED <<ens, nt>>
  /\ IF p < N
       THEN /\ its' = [x \in Iter |-> IF x = it THEN [pos |-> p + 1, seen |-> Append(its[it].seen, p),
                                                                views |-> IF "YieldReusesView" \in Deviations
                                                                            THEN [j \in 1..(Len(its[it].views) + 1) |-> p + 1]
                                                                            ELSE Append(its[it].views, p + 1)]
                                      ELSE IF "SharedCursor" \in Deviations /\ x \in Started THEN [its[x] EXCEPT !.pos = p + 1]
                                      ELSE its[x]]
            /\ last' = a @@ [out |-> "ok", val |-> RowVal(p + 1)]
       ELSE UNCHANGED its /\ Note(a, "stop")

(* list(ens) / a collected generator: a fresh iteration run to its end, every      *)
(* yielded conformer kept                                                           *)
Collect(it) ==
  /\ On("iter") /\ ens.made /\ UNCHANGED <<ens, nt>>
  /\ its' = [its EXCEPT ![it] = [pos |-> N, seen |-> [k \in 1..N |-> k - 1],
                                 views |-> IF "YieldReusesView" \in Deviations THEN [k \in 1..N |-> N] ELSE [k \in 1..N |-> k]]]
  /\ last' = [act |-> "collect", it |-> it, out |-> "ok", val |-> [k \in 1..N |-> RowVal(k)]]
(* a conformer kept from step j of iteration `it` is still a view of the row it was *)
(* yielded for - also after the iterator moved on or ended: writes reach that row   *)
HeldWrite(it, j, row) ==                             \* kept[it][j].coords = row
  /\ On("iter") /\ ens.made /\ j \in 1..Len(its[it].views) /\ Len(row) = ens.na /\ Mut
  /\ ens' = [ens EXCEPT !.C[its[it].views[j]] = row]
  /\ Note([act |-> "hwc", it |-> it, j |-> j, row |-> row], "ok")
HeldWriteQ(it, j, qrow) ==                           \* kept[it][j].atomic_charges = qrow
  /\ On("iter") /\ ens.made /\ j \in 1..Len(its[it].views) /\ Len(qrow) = ens.na /\ Mut
  /\ ens' = [ens EXCEPT !.Q[its[it].views[j]] = qrow]
  /\ Note([act |-> "hwq", it |-> it, j |-> j, row |-> qrow], "ok")

(* ---- reading operations: dump, serialise, slice -------------------------- *)
(* the ensemble writers iterate over the ensemble themselves                   *)
ReadOnly == UNCHANGED <<ens, nt>> /\
            its' = IF "SharedCursor" \in Deviations THEN [x \in Iter |-> IF x \in Started THEN [its[x] EXCEPT !.pos = N] ELSE its[x]]
                   ELSE its
Dump(fmt) ==
  LET a == [act |-> "dump", fmt |-> fmt] IN
  /\ On("dump") /\ ens.made /\ ReadOnly
  /\ IF Rect(ens) THEN last' = a @@ [out |-> "ok", val |-> IF fmt = "mol2" THEN [C |-> ens.C, Q |-> ens.Q] ELSE [C |-> ens.C]]
     ELSE Note(a, "error")
Ser ==                                               \* library codec (io.py, current schema) there and back
  LET a == [act |-> "ser"] IN
  /\ On("dump") /\ ens.made /\ UNCHANGED sv
  /\ IF Rect(ens) THEN last' = a @@ [out |-> "ok", val |-> [na |-> ens.na, nb |-> ens.nb, C |-> ens.C, Q |-> ens.Q, W |-> ens.W]]
     ELSE Note(a, "error")
CDump(i, fmt) ==                                     \* ens[i].dumps_xyz() / dumps_mol2()
  LET a == [act |-> "cdump", i |-> i, fmt |-> fmt] IN
  /\ On("io") /\ VOK(i) /\ UNCHANGED sv
  /\ IF i <= Len(ens.Q) \/ fmt = "xyz"
       THEN last' = a @@ [out |-> "ok", val |-> IF fmt = "mol2" THEN [C |-> <<ens.C[i]>>, Q |-> <<ens.Q[i]>>] ELSE [C |-> <<ens.C[i]>>]]
       ELSE Note(a, "error")
CSer(i) ==                                           \* the conformer stored as a molecule (io.py molecule codec)
  LET a == [act |-> "cser", i |-> i] IN
  /\ On("io") /\ VOK(i) /\ UNCHANGED sv
  /\ IF i <= Len(ens.Q) THEN last' = a @@ [out |-> "ok", val |-> [na |-> ens.na, nb |-> ens.nb, c |-> ens.C[i], q |-> ens.Q[i]]]
     ELSE Note(a, "error")
Slice(lo, hi) ==                                     \* ens[lo:hi] (0-based, python)
  /\ On("io") /\ ens.made /\ 0 <= lo /\ lo <= hi /\ hi <= N /\ UNCHANGED sv
  /\ last' = [act |-> "slice", lo |-> lo, hi |-> hi, out |-> "ok", val |-> [j \in 1..(hi - lo) |-> RowVal(lo + j)]]

(* ---- argument enumeration for the model checker -------------------------- *)
PoolNa(k)  == SelectSeq(MolPool, LAMBDA m : m.na = k)
Cyc(s, n)  == [i \in 1..n |-> s[((i - 1) % Len(s)) + 1]]
FillC(k, n) == IF PoolNa(k) = <<>> THEN [i \in 1..n |-> [b \in 1..k |-> <<i, 0, b>>]] ELSE [i \in 1..n |-> Cyc(PoolNa(k), n)[i].g]
FillQ(k, n) == IF PoolNa(k) = <<>> THEN [i \in 1..n |-> [b \in 1..k |-> 125 * i]] ELSE [i \in 1..n |-> Cyc(PoolNa(k), n)[i].q]
PoolSet    == {MolPool[i] : i \in 1..Len(MolPool)}
NaSet      == {m.na : m \in PoolSet}
Lists(n)   == UNION {[1..k -> PoolSet] : k \in 0..n}
Q2(row)    == [a \in 1..Len(row) |-> 2 * row[a] + 7]        \* some other charge row of the same length

SelfVal == [na |-> ens.na, nb |-> ens.nb, C |-> ens.C, Q |-> ens.Q, W |-> ens.W]
ListVal(ms) == [na |-> ms[1].na, nb |-> ms[1].nb, C |-> [i \in 1..Len(ms) |-> ms[i].g],
                Q |-> [i \in 1..Len(ms) |-> ms[i].q], W |-> [i \in 1..Len(ms) |-> 250 * i]]
CopyCtor(n) == (n = 0 \/ ~ens.S.made) /\ NewCopy(n)            \* an explicit n_conformers with the first copy only
ExtendOther(ms) == SameNa(ms, ms[1].na) /\ ExtendEns(ListVal(ms), "other")
ConfIdx == 1..MaxConf                                      \* constant bounds: TLC then reports coverage per action
Stacks(S) == UNION {[1..k -> S] : k \in 1..MaxConf}
AtomIdx == 1..(CHOOSE k \in NaSet : \A j \in NaSet : j <= k)
Next ==
  \/ \E a \in NaSet \cup {0}, n \in 0..2 : NewAtoms("none", 0, a, FillC(a, n), FillQ(a, n))
  \/ \E k \in NaSet \cup {0}, n \in 0..2, a \in {0, 3} : NewAtoms("list", k, a, FillC(k, n), FillQ(k, n))
  \/ \E m \in PoolSet, n \in 0..2, a \in {0, 3} : NewMol(m, n, a, FillC(m.na, IF n = 0 THEN 1 ELSE n), FillQ(m.na, IF n = 0 THEN 1 ELSE n))
  \/ \E ms \in Lists(3), n \in {0, 2} : NewList(ms, n)
  \/ \E n \in {0, 1} : CopyCtor(n)
  \/ \E m \in PoolSet : AppendC(m)
  \/ \E ms \in Lists(2) : ExtendList(ms)
  \/ ExtendEns(SelfVal, "self")
  \/ \E ms \in Lists(2) \ {<<>>} : ExtendOther(ms)
  \/ \E f \in FacPool : Scale(f)
  \/ Invert
  \/ \E v \in VecPool : Translate(v)
  \/ \E R \in RotPool : Rotate(R)
  \/ \E a \in AtomIdx : CenterAt(a)
  \/ \E Rs \in Stacks(RotPool) : RotateStack(Rs)
  \/ \E vs \in Stacks(VecPool) : TranslateStack(vs)
  \/ \E i \in ConfIdx, m \in PoolSet : SrcWriteC(i, m.g)
  \/ \E i \in ConfIdx, m \in PoolSet : SrcWriteQ(i, Q2(m.q))
  \/ \E i \in ConfIdx, w \in WPool : SrcSetW(i, w)
  \/ \E v \in VecPool : SrcTranslate(v)
  \/ \E i \in ConfIdx, m \in PoolSet : VWriteC(i, m.g)
  \/ \E i \in ConfIdx, m \in PoolSet : VWriteQ(i, Q2(m.q))
  \/ \E i \in ConfIdx, b \in AtomIdx, v \in VecPool : VSetAtom(i, b, v)
  \/ \E i \in ConfIdx, v \in VecPool : VTranslate(i, v)
  \/ \E i \in ConfIdx, w \in WPool : SetW(i, w)
  \/ \E m \in PoolSet : AssignC([i \in 1..N |-> m.g])
  \/ \E m \in PoolSet : AssignQ([i \in 1..N |-> Q2(m.q)])
  \/ \E w \in WPool : AssignW([i \in 1..N |-> w])
  \/ \E it \in Iter : StartIter(it)
  \/ \E it \in Iter : NextIt(it)
  \/ \E it \in Iter : Collect(it)
  \/ \E it \in Iter, j \in ConfIdx, m \in PoolSet : HeldWrite(it, j, m.g)
  \/ \E it \in Iter, j \in ConfIdx, m \in PoolSet : HeldWriteQ(it, j, Q2(m.q))
  \/ \E fmt \in {"xyz", "mol2"} : Dump(fmt)
  \/ \E fmt \in {"xyz", "mol2"}, i \in ConfIdx : CDump(i, fmt)
  \/ Ser
  \/ \E i \in ConfIdx : CSer(i)
  \/ \E lo \in 0..MaxConf, hi \in 0..MaxConf : Slice(lo, hi)

Spec == Init /\ [][Next]_vars

(* ---- what the public API shows ------------------------------------------- *)
(* arrays as returned by ens.coords / .atomic_charges / .weights, and the same *)
(* rows as read through the conformers ens[i] (held views and fresh ones)      *)
Obs == [made |-> ens.made, na |-> ens.na, nb |-> ens.nb,
        shC |-> <<Len(ens.C), ens.na, 3>>, shQ |-> <<Len(ens.Q), ens.na>>, shW |-> <<Len(ens.W)>>,
        C |-> ens.C, Q |-> ens.Q, W |-> ens.W, src |-> ens.S,
        held |-> [it \in Iter |-> [j \in 1..Len(its[it].views) |->
                     IF its[it].views[j] <= Len(ens.C) THEN RowVal(its[it].views[j]) ELSE [c |-> <<>>, q |-> <<>>]]],
        v |-> [i \in 1..Len(ens.C) |-> [c |-> ens.C[i], q |-> IF i <= Len(ens.Q) THEN ens.Q[i] ELSE <<>>,
                                        na |-> ens.na, nb |-> ens.nb]]]

(* ---- the clauses of C14 --------------------------------------------------- *)
TypeOK == /\ ens.made \in BOOLEAN /\ ens.na \in Nat /\ nt \in 0..MaxT
          /\ \A it \in Iter : its[it].pos \in -1..MaxConf
Rectangular == ens.made => Rect(ens)
(* every iterator has yielded 0, 1, ..., pos-1 in this order and nothing else  *)
EachOnceInOrder == \A it \in Iter : its[it].pos >= 0 =>
                      /\ its[it].pos <= N
                      /\ its[it].seen = [k \in 1..its[it].pos |-> k - 1]
(* a conformer yielded for row i stays a view of row i                            *)
YieldedViewsStay == \A it \in Iter : its[it].views = [j \in 1..Len(its[it].seen) |-> its[it].seen[j] + 1]
HeldWriteThrough ==
  [][last'.act \in {"hwc", "hwq"} =>
        LET r == its[last'.it].seen[last'.j] + 1 IN
        /\ last'.out = "ok" /\ ens'.W = ens.W /\ Len(ens'.C) = N
        /\ (last'.act = "hwc" => ens'.C[r] = last'.row /\ ens'.Q = ens.Q /\ \A k \in 1..N : k # r => ens'.C[k] = ens.C[k])
        /\ (last'.act = "hwq" => ens'.Q[r] = last'.row /\ ens'.C = ens.C /\ \A k \in 1..N : k # r => ens'.Q[k] = ens.Q[k])]_vars
StopOnlyAtEnd == [][(last'.act = "next" /\ last'.out = "stop") => Len(its[last'.it].seen) = N]_vars
YieldsTheRow  == [][(last'.act = "next" /\ last'.out = "ok") =>
                      last'.val = RowVal(Len(its[last'.it].seen) + 1)]_vars
(* a write through conformer i changes row i of that array, and nothing else   *)
OthersC(i) == \A j \in 1..N : j # i => ens'.C[j] = ens.C[j]
WriteThrough ==
  [][/\ (last'.act = "vwc" => last'.out = "ok" /\ ens'.C[last'.i] = last'.row /\ OthersC(last'.i)
                               /\ ens'.Q = ens.Q /\ ens'.W = ens.W /\ Len(ens'.C) = N)
     /\ (last'.act = "vwq" => last'.out = "ok" /\ ens'.Q[last'.i] = last'.row /\ ens'.C = ens.C /\ ens'.W = ens.W
                               /\ \A j \in 1..Len(ens.Q) : j # last'.i => ens'.Q[j] = ens.Q[j])
     /\ (last'.act \in {"vsa", "vtr"} => OthersC(last'.i) /\ ens'.Q = ens.Q /\ ens'.W = ens.W)
     /\ (last'.act = "vsa" => ens'.C[last'.i][last'.b] = last'.p)]_vars
AssignTouchesOneArray ==
  [][/\ (last'.act = "asc" => ens'.C = last'.X /\ ens'.Q = ens.Q /\ ens'.W = ens.W)
     /\ (last'.act = "asq" => ens'.Q = last'.X /\ ens'.C = ens.C /\ ens'.W = ens.W)
     /\ (last'.act = "asw" => ens'.W = last'.X /\ ens'.C = ens.C /\ ens'.Q = ens.Q)]_vars
(* collective transformations touch every coordinate row and only coordinates  *)
TransformsOnlyCoords ==
  [][last'.act \in {"scale", "invert", "translate", "rotate", "center", "rotstack", "trstack"} /\ last'.out = "ok" =>
        /\ ens'.Q = ens.Q /\ ens'.W = ens.W /\ Len(ens'.C) = N /\ ens'.na = ens.na]_vars
SingleTransformsSucceed == [][last'.act \in {"scale", "invert", "translate", "rotate", "center"} => last'.out = "ok"]_vars
StackIsRowwise ==
  [][(last'.act = "rotstack" /\ last'.out = "ok") =>
        /\ Len(last'.Rs) = N
        /\ \A i \in 1..N : \A a \in 1..Len(ens.C[i]) : ens'.C[i][a] = RotP(ens.C[i][a], last'.Rs[i])]_vars
TranslateIsUniform ==
  [][last'.act = "translate" => \A i \in 1..N : \A a \in 1..Len(ens.C[i]) : ens'.C[i][a] = AddV(ens.C[i][a], last'.v)]_vars
(* growing keeps what was there and adds exactly the rows given                 *)
IsPrefix(s, t) == Len(s) <= Len(t) /\ \A i \in 1..Len(s) : t[i] = s[i]
GrowKeepsOld ==
  [][(last'.act \in {"append", "extlist", "extens"} /\ last'.out = "ok" /\ ~NoAtoms) =>
        IsPrefix(ens.C, ens'.C) /\ IsPrefix(ens.Q, ens'.Q) /\ IsPrefix(ens.W, ens'.W)]_vars
AppendAddsTheRow ==
  [][(last'.act = "append" /\ last'.out = "ok") => (Len(ens'.C) = N + 1 /\ ens'.C[N + 1] = last'.m.g)]_vars
SrcActs == {"swc", "swq", "ssw", "str"}
CopyIsFaithful == [][last'.act = "newcopy" => ens' = [ens EXCEPT !.S = SrcOf(ens)]]_vars
(* the copy and its source are independent objects: a write reaches exactly one   *)
SourceUntouched == [][last'.act \notin (SrcActs \cup {"newcopy"}) => ens'.S = ens.S]_vars
CopyUntouched   == [][last'.act \in SrcActs => ens' = [ens EXCEPT !.S = ens'.S]]_vars
FailedOpIsNoOp == [][last'.out \in {"error", "stop"} => ens' = ens]_vars
ReadsChangeNothing == [][last'.act \in {"dump", "ser", "cdump", "cser", "slice", "start", "next", "collect"} => ens' = ens]_vars
(* every conformer can be written, the ensemble can be written and stored       *)
DumpableAndStorable == [][last'.act \in {"dump", "ser", "cdump", "cser"} => last'.out = "ok"]_vars
=============================================================================
