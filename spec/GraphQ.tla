------------------------------- MODULE GraphQ -------------------------------
(* C15: graph queries of molli.chem.Connectivity agree with graph theory.      *)
(*                                                                             *)
(* Part 1  graph-theoretic DEFINITIONS over a molecular graph                  *)
(*         g = [n, el, bonds]: distance, component, side of a neighbour,       *)
(*         bridge, neighbours / incident bonds / bonded valence, induced       *)
(*         embeddings of a pattern.  Declarative forms (Ball, EmbDecl) and     *)
(*         the efficient forms used for big graphs (DistMap, EmbRec); TLC      *)
(*         proves them equal on every small graph (DefsAgree, MatchExact).     *)
(* Part 2  what the property DEMANDS of a traversal, one yield at a time       *)
(*         (CheckYield / AbsBegin / AbsYield / AbsEnd, AbsRing, AbsLocal,      *)
(*         AbsMatch).  The order of yields inside one distance level is free.  *)
(*         GraphQTrace.tla validates recorded executions with these actions.   *)
(* Part 3  an implementation-shaped model of yield_bfsd / yield_bfs /          *)
(*         is_bond_in_ring (deque used as FIFO, visited set, early return),    *)
(*         bonds_with_atom (scan of the bond list) and the matcher.  TLC       *)
(*         checks on all graphs with <= MaxN atoms that every step of it       *)
(*         is a step Part 2 accepts.  Deviations name realistic bugs.          *)
EXTENDS Naturals, Sequences, FiniteSets, TLC
CONSTANTS MinN, MaxN,  \* model checking: all labelled graphs on MinN..MaxN atoms
          Elems,       \* elements of target atoms in the model
          PatPool,     \* patterns offered to Match in the model
          Kinds,       \* which queries the model explores: subset of {"bfs","ring","local","match","defs"}
          DeclLimit,   \* Emb uses the declarative definition while n^pn <= DeclLimit
          Handles,     \* model checking: handles on the one graph (object, held view of it); each may cache for itself
          MaxEdits,    \* model checking: in-place edits of the graph between queries (histories on one object)
          Deviations   \* named wrong behaviours (non-vacuity)
VARIABLES g,        \* the graph [n |-> Nat, el |-> Seq(STRING), bonds |-> Seq([a, b, o2])] AS IT IS NOW (edits update it)
          adj,      \* cache: atom -> set of neighbours (= AdjOf(g))
          pat,      \* the pattern object of a history (trace validation), edited in place as well
          open,     \* the handles through which the graph is reached: "obj", held Conformer views of an ensemble ..
                    \* ALL handles (and the live bond list) denote the one graph g: an edit through any of them
                    \* is an edit of g, a query through any of them is decided on g
          memo,     \* implementation: handle -> the graph as converted / tabulated by an earlier query through
                    \* that handle (only deviations ever reuse it)
          edits,    \* model checking: number of edits so far
          cur,      \* running query [kind, s, d]
          tgt,      \* atom -> distance REQUIRED for the running traversal
          seen,     \* atoms yielded so far
          lastk,    \* distance of the latest yield
          viol,     \* clauses of the property broken by a yield so far
          phase,    \* "idle" | "run" | "done"
          cursor,   \* implementation: entry being expanded [a, k] (a = 0: none)
          queue,    \* implementation: the deque, head = next to pop
          visited,  \* implementation: the visited set
          res,      \* result of the finished query
          last      \* observation: latest action (never in the fingerprint)
static == <<g, adj, pat, open, memo, edits>>
vars == <<g, adj, pat, open, memo, edits, cur, tgt, seen, lastk, viol, phase, cursor, queue, visited, res, last>>
sv   == <<g, adj, pat, open, memo, edits, cur, tgt, seen, lastk, viol, phase, cursor, queue, visited, res>>

(* ======================= Part 1: definitions ============================== *)
Nodes(G)        == 1..G.n
NB(G)           == Len(G.bonds)
Ends(G, i)      == {G.bonds[i].a, G.bonds[i].b}
BondsWith(G, a) == {i \in 1..NB(G) : a \in Ends(G, i)}
NbrsOf(G, a)    == {IF G.bonds[i].a = a THEN G.bonds[i].b ELSE G.bonds[i].a : i \in BondsWith(G, a)} \ {a}
AdjOf(G)        == [a \in Nodes(G) |-> NbrsOf(G, a)]
RECURSIVE SumO2(_, _)
SumO2(G, S)     == IF S = {} THEN 0 ELSE LET i == CHOOSE i \in S : TRUE IN G.bonds[i].o2 + SumO2(G, S \ {i})
Val2(G, a)      == SumO2(G, BondsWith(G, a))                 \* twice the bonded valence
(* a molecular graph: no loop, no parallel bond, ends are atoms *)
Simple(G) == /\ Len(G.el) = G.n
             /\ \A i \in 1..NB(G) : G.bonds[i].a \in Nodes(G) /\ G.bonds[i].b \in Nodes(G) /\ G.bonds[i].a # G.bonds[i].b
             /\ \A i, j \in 1..NB(G) : Ends(G, i) = Ends(G, j) => i = j

(* declarative: atoms reachable from s by a walk of at most k bonds that never enters X *)
RECURSIVE Ball(_, _, _, _)
Ball(A, s, k, X) == IF k = 0 THEN {s}
                    ELSE LET B == Ball(A, s, k - 1, X) IN B \cup {y \in UNION {A[x] : x \in B} : y \notin X}
N(A)                == Cardinality(DOMAIN A)
ReachDecl(A, s, X)  == Ball(A, s, N(A), X)
DistDecl(A, s, t, X) == CHOOSE k \in 0..N(A) : t \in Ball(A, s, k, X) /\ (k = 0 \/ t \notin Ball(A, s, k - 1, X))

(* efficient: the same function computed level by level *)
NoMap == [a \in {} |-> 0]
RECURSIVE Levels(_, _, _, _, _)
Levels(A, X, front, f, k) ==
  IF front = {} THEN f
  ELSE LET f2  == [a \in DOMAIN f \cup front |-> IF a \in DOMAIN f THEN f[a] ELSE k]
           nxt == {y \in UNION {A[x] : x \in front} : y \notin X /\ y \notin DOMAIN f2}
       IN Levels(A, X, nxt, f2, k + 1)
DistMap(A, s, X) == Levels(A, X, {s}, NoMap, 0)        \* atom -> distance from s in the graph without X

(* what a traversal from s (direction d, 0 = none) has to yield, with which distance:           *)
(*  d = 0: every OTHER atom of the component of s, at its shortest-path distance;               *)
(*  d # 0: the atoms reachable through d without passing s (d included), at the length of the   *)
(*         shortest path from s that starts with the bond s-d and never returns to s.           *)
Target(A, s, d) == IF d = 0 THEN LET D == DistMap(A, s, {}) IN [a \in DOMAIN D \ {s} |-> D[a]]
                            ELSE LET D == DistMap(A, d, {s}) IN [a \in DOMAIN D |-> D[a] + 1]
TargetDecl(A, s, d) ==                                   \* the same from the declarative balls (B[k] evaluated once)
  LET src == IF d = 0 THEN s ELSE d
      X   == IF d = 0 THEN {} ELSE {s}
      B   == [k \in 0..N(A) |-> Ball(A, src, k, X)]
      DD(t) == CHOOSE k \in 0..N(A) : t \in B[k] /\ (k = 0 \/ t \notin B[k - 1])      \* = DistDecl(A, src, t, X)
  IN IF d = 0 THEN [a \in B[N(A)] \ {s} |-> DD(a)] ELSE [a \in B[N(A)] |-> DD(a) + 1]

(* a bond is a bridge iff its ends are disconnected once it is removed *)
AdjMinus(A, a, b) == [x \in DOMAIN A |-> IF x = a THEN A[x] \ {b} ELSE IF x = b THEN A[x] \ {a} ELSE A[x]]
Bridge(A, a, b)   == b \notin DOMAIN DistMap(AdjMinus(A, a, b), a, {})
BridgeDecl(A, a, b) == b \notin ReachDecl(AdjMinus(A, a, b), a, {})

(* induced embeddings of a pattern P (adjacency PA) into G (adjacency GA) *)
ElemOK(pe, ge) == pe = "Unknown" \/ pe = ge                        \* Unknown in the pattern matches any element
Injective(P, m)           == \A i, j \in 1..P.n : i # j => m[i] # m[j]
RespectsElements(P, G, m) == \A i \in 1..P.n : ElemOK(P.el[i], G.el[m[i]])
BondedToBonded(P, PA, GA, m)       == \A i, j \in 1..P.n : j \in PA[i] => m[j] \in GA[m[i]]
NonBondedToNonBonded(P, PA, GA, m) == \A i, j \in 1..P.n : (i # j /\ j \notin PA[i]) => m[j] \notin GA[m[i]]
(* What decides a match is ALL here: elements (Unknown = wildcard in the pattern) and adjacency.  Atom type, *)
(* geometry, label, stereo descriptor, formal charge / spin, attrib of pattern or target atoms are not part    *)
(* of g or P: by the property they cannot change the set of embeddings (the harness varies them freely).       *)
IsEmbedding(P, PA, G, GA, m) ==
  /\ DOMAIN m = 1..P.n /\ \A i \in 1..P.n : m[i] \in Nodes(G)
  /\ Injective(P, m) /\ RespectsElements(P, G, m)
  /\ BondedToBonded(P, PA, GA, m) /\ NonBondedToNonBonded(P, PA, GA, m)
EmbDecl(P, PA, G, GA) == {m \in [1..P.n -> Nodes(G)] : IsEmbedding(P, PA, G, GA, m)}

(* the same set by extension of partial maps, atom by atom; candidates for atom k are the          *)
(* neighbours of the image of an earlier pattern neighbour (any atom when there is none).          *)
(* Deviations change the matcher of Part 3 only: the trace specification runs with Deviations = {} *)
RElemOK(pe, ge) == IF "WildcardIgnored" \in Deviations THEN pe = ge ELSE ElemOK(pe, ge)
RECURSIVE Extend(_, _, _, _, _, _)
Extend(P, PA, G, GA, k, Ms) ==
  IF k > P.n THEN Ms
  ELSE LET anchors == {j \in 1..(k - 1) : j \in PA[k]}
           Cand(m) == IF anchors = {} THEN Nodes(G) ELSE GA[m[CHOOSE j \in anchors : TRUE]]
           OKv(m, v) == /\ \A j \in 1..(k - 1) : m[j] # v
                        /\ RElemOK(P.el[k], G.el[v])
                        /\ \A j \in 1..(k - 1) :
                              IF "NonInducedMatch" \in Deviations THEN (j \in PA[k] => m[j] \in GA[v])
                                                                  ELSE (j \in PA[k] <=> m[j] \in GA[v])
       IN Extend(P, PA, G, GA, k + 1, UNION {{Append(m, v) : v \in {v \in Cand(m) : OKv(m, v)}} : m \in Ms})
EmbRec(P, PA, G, GA) == Extend(P, PA, G, GA, 1, {<<>>})
RECURSIVE Pow(_, _)
Pow(b, e) == IF e = 0 THEN 1 ELSE LET p == Pow(b, e - 1) IN IF b * p > 1000000 THEN 1000001 ELSE b * p
Emb(P, PA, G, GA) == IF Pow(G.n, P.n) <= DeclLimit THEN EmbDecl(P, PA, G, GA) ELSE EmbRec(P, PA, G, GA)

(* ======================= Part 2: what the property demands ================ *)
NoGraph  == [n |-> 0, el |-> <<>>, bonds |-> <<>>]
NoQuery  == [kind |-> "none", s |-> 0, d |-> 0, h |-> "none"]
NoCursor == [a |-> 0, k |-> 0]
ToSet(s) == {s[i] : i \in 1..Len(s)}

(* clauses of the property a yield (a, k) breaks, given what was yielded before *)
CheckYield(T, sn, lk, a, k) ==
     (IF a \in sn THEN {"ExactlyOnce"} ELSE {})
  \cup (IF a \notin DOMAIN T THEN {"OnlyTarget"} ELSE IF k # T[a] THEN {"TrueDistance"} ELSE {})
  \cup (IF k < lk THEN {"NonDecreasing"} ELSE {})

IdleVars == /\ cur = NoQuery /\ tgt = NoMap /\ seen = {} /\ lastk = 0 /\ viol = {} /\ phase = "idle"
            /\ cursor = NoCursor /\ queue = <<>> /\ visited = {} /\ res = "none"
NoMemo == [h \in Handles |-> NoGraph]
InitWith(G) == /\ g = G /\ adj = AdjOf(G) /\ pat = NoGraph /\ open = {"obj"} /\ memo = NoMemo /\ edits = 0 /\ IdleVars /\ last = [act |-> "init"]
BackToIdle == /\ cur' = NoQuery /\ tgt' = NoMap /\ seen' = {} /\ lastk' = 0 /\ viol' = {} /\ phase' = "idle"
              /\ cursor' = NoCursor /\ queue' = <<>> /\ visited' = {} /\ res' = "none"
ImplIdle == UNCHANGED <<cursor, queue, visited>>

(* guards are written `X = TRUE` so that TLC evaluates them as values (a bounded quantifier that is *)
(* a conjunct of an action is unfolded on the Java stack, one frame per element)                   *)
AbsLoad(G) == /\ Simple(G) = TRUE /\ g' = G /\ adj' = AdjOf(G) /\ pat' = NoGraph /\ open' = {"obj"} /\ UNCHANGED <<memo, edits>>
              /\ BackToIdle /\ last' = [act |-> "graph"]

(* ----- histories on one object: in-place edits between queries.  Every query after an edit is       *)
(* decided on the edited graph.  The bond LIST order and the orientation of a bond after an edit are  *)
(* free; atoms keep their relative order (positions above a deleted atom move down by one).           *)
EdgeSet(G) == {[e |-> Ends(G, i), o2 |-> G.bonds[i].o2] : i \in 1..NB(G)}
SameConstitution(G, H) == G.n = H.n /\ G.el = H.el /\ EdgeSet(G) = EdgeSet(H) /\ NB(G) = NB(H)
Relabel(G, a, e)     == [G EXCEPT !.el[a] = e]                               \* atom.element = e
Rebond(G, i, o2)     == [G EXCEPT !.bonds[i].o2 = o2]                        \* bond.btype = t (only its order is in g)
AddEdge(G, a, b, o2) == [G EXCEPT !.bonds = Append(@, [a |-> a, b |-> b, o2 |-> o2])]
DelEdge(G, i)        == [G EXCEPT !.bonds = SubSeq(@, 1, i - 1) \o SubSeq(@, i + 1, Len(@))]
AddAtom(G, e)        == [G EXCEPT !.n = @ + 1, !.el = Append(@, e)]
DelAtom(G, a)        == LET ren(x) == IF x > a THEN x - 1 ELSE x
                            keep   == SelectSeq(G.bonds, LAMBDA b : b.a # a /\ b.b # a)
                        IN [n |-> G.n - 1, el |-> SubSeq(G.el, 1, a - 1) \o SubSeq(G.el, a + 1, G.n),
                            bonds |-> [i \in 1..Len(keep) |-> [a |-> ren(keep[i].a), b |-> ren(keep[i].b), o2 |-> keep[i].o2]]]
EditOK(G, op) ==
  CASE op.op = "relabel" -> op.a \in Nodes(G)
    [] op.op = "label"   -> op.a \in Nodes(G)                                \* atom.label = ..: not part of the graph
    [] op.op = "attr"    -> op.a \in Nodes(G)                                \* atype / geom / stereo / charge / isotope: idem
    [] op.op = "rebond"  -> op.i \in 1..NB(G)
    [] op.op = "connect" -> op.a \in Nodes(G) /\ op.b \in Nodes(G) /\ op.a # op.b /\ op.b \notin NbrsOf(G, op.a)
    [] op.op = "delbond" -> op.i \in 1..NB(G)
    [] op.op = "addatom" -> TRUE
    [] op.op = "delatom" -> op.a \in Nodes(G)
    [] OTHER -> FALSE
Edited(G, op) ==
  CASE op.op = "relabel" -> Relabel(G, op.a, op.e)
    [] op.op = "label"   -> G
    [] op.op = "attr"    -> G
    [] op.op = "rebond"  -> Rebond(G, op.i, op.o2)
    [] op.op = "connect" -> AddEdge(G, op.a, op.b, op.o2)
    [] op.op = "delbond" -> DelEdge(G, op.i)
    [] op.op = "addatom" -> AddAtom(G, op.e)
    [] op.op = "delatom" -> DelAtom(G, op.a)
(* a further handle on the same graph is taken and held (ensemble[i] -> Conformer view) *)
AbsOpen(h) ==
  /\ phase = "idle" /\ h \notin open /\ open' = open \cup {h}
  /\ UNCHANGED <<g, adj, pat, memo, edits>> /\ BackToIdle /\ last' = [act |-> "open", h |-> h]
(* H = the graph the object shows through atoms / bonds after the edit: it must be the edited graph. *)
(* op.via = the handle the edit went through ("list" = the live bond list itself; "" = in place)      *)
AbsEdit(op, H) ==
  /\ phase = "idle" /\ EditOK(g, op) = TRUE /\ op.via \in open \cup {"list", ""}
  /\ (Simple(H) /\ SameConstitution(Edited(g, op), H)) = TRUE
  /\ g' = H /\ adj' = AdjOf(H) /\ UNCHANGED <<pat, open, memo, edits>> /\ BackToIdle /\ last' = [act |-> "edit", op |-> op.op]
AbsPattern(P) ==
  /\ phase = "idle" /\ (Simple(P) /\ P.n >= 1) = TRUE
  /\ pat' = P /\ UNCHANGED <<g, adj, open, memo, edits>> /\ BackToIdle /\ last' = [act |-> "pattern"]
AbsPatEdit(op) ==                                                           \* relabel / label / rebond of the pattern
  /\ phase = "idle" /\ op.op \in {"relabel", "label", "attr", "rebond"} /\ EditOK(pat, op) = TRUE
  /\ pat' = Edited(pat, op) /\ UNCHANGED <<g, adj, open, memo, edits>> /\ BackToIdle /\ last' = [act |-> "pedit", op |-> op.op]

AbsBegin(s, d, h) ==
  /\ phase = "idle" /\ h \in open /\ s \in Nodes(g) /\ (d = 0 \/ d \in adj[s])
  /\ cur' = [kind |-> "bfs", s |-> s, d |-> d, h |-> h] /\ tgt' = Target(adj, s, d)
  /\ seen' = {} /\ lastk' = 0 /\ phase' = "run"
  /\ UNCHANGED <<static, viol, res>> /\ ImplIdle /\ last' = [act |-> "begin", s |-> s, d |-> d]
AbsYield(a, k) ==
  /\ phase = "run" /\ CheckYield(tgt, seen, lastk, a, k) = {}
  /\ seen' = seen \cup {a} /\ lastk' = k
  /\ UNCHANGED <<static, cur, tgt, viol, phase, res>> /\ ImplIdle /\ last' = [act |-> "yield", a |-> a, k |-> k]
AbsEnd ==
  /\ phase = "run" /\ seen = DOMAIN tgt                                  \* none missed
  /\ BackToIdle /\ UNCHANGED <<static>> /\ last' = [act |-> "end"]
AbsRing(i, r, h) ==
  /\ phase = "idle" /\ h \in open /\ i \in 1..NB(g)
  /\ r = ~Bridge(adj, g.bonds[i].a, g.bonds[i].b)
  /\ UNCHANGED sv /\ last' = [act |-> "ring", b |-> i, res |-> r]
LocalOK(a, nbrs, bonds, v2) ==
  /\ ToSet(nbrs) = adj[a] /\ Len(nbrs) = Cardinality(adj[a])
  /\ ToSet(bonds) = BondsWith(g, a) /\ Len(bonds) = Cardinality(BondsWith(g, a))
  /\ v2 = Val2(g, a)
AbsLocal(a, nbrs, bonds, v2, h) ==                                       \* sequences as yielded, in any order
  /\ phase = "idle" /\ h \in open /\ a \in Nodes(g)
  /\ LocalOK(a, nbrs, bonds, v2) = TRUE
  /\ UNCHANGED sv /\ last' = [act |-> "local", a |-> a]
(* mode "exact": the returned maps are exactly the induced embeddings.                          *)
(* mode "sound": bonds of several types; the code may filter by bond type, which the property   *)
(*   does not describe: every returned map must be an induced embedding, and the map `must`     *)
(*   (the pattern was cut out of the target there), if it is an embedding, must be returned.    *)
MatchOK(P, maps, mode, must) ==
  /\ Simple(P) /\ P.n >= 1
  /\ LET PA == AdjOf(P) IN
       IF mode = "exact" THEN ToSet(maps) = Emb(P, PA, g, adj)
       ELSE /\ \A i \in 1..Len(maps) : IsEmbedding(P, PA, g, adj, maps[i])
            /\ (must # <<>> /\ IsEmbedding(P, PA, g, adj, must)) => must \in ToSet(maps)
AbsMatch(P, maps, mode, must, h) ==
  /\ phase = "idle" /\ h \in open /\ MatchOK(P, maps, mode, must) = TRUE
  /\ UNCHANGED sv /\ last' = [act |-> "match", mode |-> mode]

AbsMatchP(pel, maps, mode, h) ==                               \* match against the pattern object of the history
  /\ phase = "idle" /\ h \in open /\ pat.n >= 1 /\ pel = pat.el             \* the pattern object shows the edited elements
  /\ MatchOK(pat, maps, mode, <<>>) = TRUE
  /\ UNCHANGED sv /\ last' = [act |-> "matchp", mode |-> mode]

(* ======================= Part 3: implementation-shaped model ============== *)
Dev(x) == x \in Deviations
(* all labelled graphs on n atoms: bonds in a canonical order; order byte o2 varies with the pair *)
RECURSIVE PairSeq(_, _, _)
PairSeq(n, a, b) == IF a >= n THEN <<>> ELSE IF b > n THEN PairSeq(n, a + 1, a + 2)
                    ELSE <<[a |-> a, b |-> b, o2 |-> IF (a + b) % 2 = 0 THEN 2 ELSE 3]>> \o PairSeq(n, a, b + 1)
GraphsOn(n, Els) == {[n |-> n, el |-> e, bonds |-> SelectSeq(PairSeq(n, 1, 2), LAMBDA p : {p.a, p.b} \in S)] :
                       e \in [1..n -> Els], S \in SUBSET {{q[1], q[2]} : q \in {p \in (1..n) \X (1..n) : p[1] < p[2]}}}
AllGraphs(Nmax, Els) == UNION {GraphsOn(n, Els) : n \in 1..Nmax}
Init == \E G \in UNION {GraphsOn(n, Elems) : n \in MinN..MaxN} : InitWith(G)

Connections(s, d) == IF Dev("RingThroughBond") THEN adj[s] ELSE adj[s] \ {d}
(* yield_bfsd(start, direction) up to its first yield; kind "ring" = is_bond_in_ring(bond s-d) *)
(* the graph a query through handle h works on *)
HGraph(h) == IF Dev("PerHandleCache") /\ memo[h] # NoGraph THEN memo[h]            \* table dropped only by edits through h
             ELSE IF Dev("StaleAdjacency") /\ memo[h].n = g.n THEN memo[h] ELSE g
Begin(kind, s, d, h) ==
  /\ phase = "idle" /\ kind \in Kinds \cap {"bfs", "ring"} /\ s \in Nodes(g)
  /\ IF kind = "ring" THEN d \in adj[s] ELSE d = 0 \/ d \in adj[s]
  /\ cur' = [kind |-> kind, s |-> s, d |-> d, h |-> h] /\ tgt' = Target(adj, s, d)
  /\ memo' = [memo EXCEPT ![h] = HGraph(h)]                                  \* the adjacency this traversal walks on
  /\ visited' = (IF Dev("StartNotVisited") THEN {} ELSE {s})
                  \cup (IF d = 0 \/ Dev("DirectionNotExcluded") THEN {} ELSE {d})
  /\ cursor' = NoCursor
  /\ LET k0 == IF Dev("DirectionAtZero") THEN 0 ELSE 1 IN
     IF d = 0 THEN /\ queue' = <<[a |-> s, k |-> 0]>> /\ seen' = {} /\ lastk' = 0 /\ viol' = {}
                   /\ phase' = "run" /\ res' = "none"
     ELSE /\ queue' = <<[a |-> d, k |-> k0]>> /\ seen' = {d} /\ lastk' = k0
          /\ viol' = CheckYield(tgt', {}, 0, d, k0)
          /\ IF kind = "ring" /\ d \in Connections(s, d) THEN phase' = "done" /\ res' = TRUE
                                                         ELSE phase' = "run" /\ res' = "none"
  /\ UNCHANGED <<g, adj, pat, open, edits>> /\ last' = [act |-> "begin", kind |-> kind, s |-> s, d |-> d]

WalkAdj(a) == IF Dev("StaleAdjacency") \/ Dev("PerHandleCache") THEN NbrsOf(memo[cur.h], a) ELSE adj[a]
Unvisited == IF cursor.a = 0 THEN {} ELSE WalkAdj(cursor.a) \ visited
(* queue.pop(): the deque is filled with appendleft, so pop() takes the OLDEST entry *)
Pop ==
  /\ phase = "run" /\ Unvisited = {} /\ queue # <<>>
  /\ IF Dev("LIFO") THEN cursor' = queue[Len(queue)] /\ queue' = SubSeq(queue, 1, Len(queue) - 1)
                    ELSE cursor' = Head(queue) /\ queue' = Tail(queue)
  /\ UNCHANGED <<static, cur, tgt, seen, lastk, viol, phase, visited, res>> /\ last' = [act |-> "pop"]
(* one iteration of `for a in connected_atoms(start)` that yields; the order of neighbours is the bond order: free *)
Yield(v) ==
  /\ phase = "run" /\ v \in Unvisited
  /\ LET k == cursor.k + 1 IN
     /\ viol' = viol \cup CheckYield(tgt, seen, lastk, v, k)
     /\ seen' = seen \cup {v} /\ lastk' = k /\ visited' = visited \cup {v}
     /\ queue' = Append(queue, [a |-> v, k |-> k])
     /\ IF cur.kind = "ring" /\ v \in Connections(cur.s, cur.d) THEN phase' = "done" /\ res' = TRUE
                                                                 ELSE UNCHANGED <<phase, res>>
     /\ last' = [act |-> "yield", a |-> v, k |-> k]
  /\ UNCHANGED <<static, cur, tgt, cursor>>
End ==
  /\ phase = "run" /\ Unvisited = {} /\ queue = <<>>
  /\ phase' = "done" /\ res' = IF cur.kind = "ring" THEN FALSE ELSE "none"
  /\ UNCHANGED <<static, cur, tgt, seen, lastk, viol, cursor, queue, visited>> /\ last' = [act |-> "end"]

(* bonds_with_atom / connected_atoms / bonded_valence: one scan of the bond LIST *)
RECURSIVE Scan(_, _, _)
Scan(G, a, i) == IF i > NB(G) THEN [nbrs |-> <<>>, bonds |-> <<>>, v2 |-> 0]
                 ELSE LET r == Scan(G, a, i + 1)
                          b == G.bonds[i] IN
                      IF a \in {b.a, b.b}
                        THEN [nbrs |-> <<IF b.a = a THEN b.b ELSE b.a>> \o r.nbrs, bonds |-> <<i>> \o r.bonds,
                              v2 |-> (IF Dev("ValenceCountsBonds") THEN 2 ELSE b.o2) + r.v2]
                        ELSE r
Local(a, h) ==
  /\ phase = "idle" /\ "local" \in Kinds /\ a \in Nodes(g)
  /\ cur' = [kind |-> "local", s |-> a, d |-> 0, h |-> h] /\ res' = Scan(HGraph(h), a, 1) /\ phase' = "done"
  /\ memo' = [memo EXCEPT ![h] = HGraph(h)]
  /\ UNCHANGED <<g, adj, pat, open, edits, tgt, seen, lastk, viol, cursor, queue, visited>> /\ last' = [act |-> "local", a |-> a]
Match(P, h) ==
  /\ phase = "idle" /\ "match" \in Kinds
  (* to_nxgraph(): with the deviation the converted graph is reused while atoms and bonds look the same, *)
  (* so that elements edited in place are stale                                                           *)
  /\ LET M  == memo[h]
         GM == IF Dev("StaleAttributes") /\ M.n = g.n /\ {Ends(M, i) : i \in 1..NB(M)} = {Ends(g, i) : i \in 1..NB(g)}
                 THEN M ELSE g IN
     /\ memo' = [memo EXCEPT ![h] = GM]
     /\ res' = EmbRec(P, AdjOf(P), GM, AdjOf(GM))
  /\ cur' = [kind |-> "match", s |-> P, d |-> 0, h |-> h] /\ phase' = "done"
  /\ UNCHANGED <<g, adj, pat, open, edits, tgt, seen, lastk, viol, cursor, queue, visited>> /\ last' = [act |-> "match"]

DefsHold ==
  /\ adj = AdjOf(g) /\ Simple(g)
  /\ \A s \in Nodes(g) : \A d \in {0} \cup adj[s] : Target(adj, s, d) = TargetDecl(adj, s, d)
  /\ \A s \in Nodes(g) : \A d \in adj[s] : Bridge(adj, s, d) = BridgeDecl(adj, s, d)
Defs ==
  /\ phase = "idle" /\ "defs" \in Kinds
  /\ cur' = [kind |-> "defs", s |-> 0, d |-> 0, h |-> "none"] /\ res' = DefsHold /\ phase' = "done"
  /\ UNCHANGED <<static, tgt, seen, lastk, viol, cursor, queue, visited>> /\ last' = [act |-> "defs"]
(* an in-place edit between two queries on the same object *)
(* h = the handle the edit goes through: with the deviation only THAT handle drops its table *)
EditTo(G, h) ==
  /\ edits < MaxEdits /\ phase \in {"idle", "done"}
  /\ g' = G /\ adj' = AdjOf(G) /\ edits' = edits + 1
  /\ memo' = IF Dev("PerHandleCache") THEN [memo EXCEPT ![h] = NoGraph] ELSE memo
  /\ UNCHANGED <<pat, open>> /\ BackToIdle /\ last' = [act |-> "edit"]
BondAt(a, b) == CHOOSE i \in 1..NB(g) : Ends(g, i) = {a, b}
DoEdit == \/ \E a \in Nodes(g), e \in Elems, h \in Handles : e # g.el[a] /\ EditTo(Relabel(g, a, e), h)
          \/ \E a, b \in Nodes(g), h \in Handles :
                a < b /\ EditTo(IF b \in adj[a] THEN DelEdge(g, BondAt(a, b)) ELSE AddEdge(g, a, b, 2), h)
DoBegin == \E kind \in {"bfs", "ring"}, s \in Nodes(g), d \in 0..g.n, h \in Handles : Begin(kind, s, d, h)
DoYield == \E v \in Nodes(g) : Yield(v)
DoLocal == \E a \in Nodes(g), h \in Handles : Local(a, h)
DoMatch == \E P \in PatPool, h \in Handles : Match(P, h)
Next == DoBegin \/ Pop \/ DoYield \/ End \/ DoLocal \/ DoMatch \/ Defs \/ DoEdit
Spec == Init /\ [][Next]_vars

(* ----- the clauses of C15 -------------------------------------------------- *)
YieldExactlyOnce   == "ExactlyOnce" \notin viol          \* no atom twice
YieldOnlyTarget    == "OnlyTarget" \notin viol           \* never the start, never an atom outside the component / side
YieldTrueDistance  == "TrueDistance" \notin viol
YieldNonDecreasing == "NonDecreasing" \notin viol
YieldsAll          == (phase = "done" /\ cur.kind = "bfs") => seen = DOMAIN tgt
RingIffNotBridge   == (phase = "done" /\ cur.kind = "ring") => (res = ~Bridge(adj, cur.s, cur.d))
LocalAgrees        == (phase = "done" /\ cur.kind = "local") =>
                        /\ ToSet(res.nbrs) = adj[cur.s] /\ Len(res.nbrs) = Cardinality(adj[cur.s])
                        /\ ToSet(res.bonds) = BondsWith(g, cur.s) /\ res.v2 = Val2(g, cur.s)
MatchExact         == (phase = "done" /\ cur.kind = "match") => res = EmbDecl(cur.s, AdjOf(cur.s), g, adj)
(* the efficient definitions used for big graphs are the declarative ones (evaluated by the action *)
(* Defs, i.e. by TLC's worker threads, once per graph)                                             *)
DefsAgree          == (phase = "done" /\ cur.kind = "defs") => res = TRUE
=============================================================================
