------------------------------ MODULE XyzText ------------------------------
(* C08: xyz round trip and unit handling -- "coordinates mean what the file   *)
(* says".                                                                     *)
(*                                                                            *)
(* One object in memory (`mem`), one text (`text`: a stream that dumps append  *)
(* to, or a file written by another program), and the ghost `truth`: the      *)
(* frames, in micro-Angstrom, that the text denotes.  One action per public   *)
(* call: Make (construct an object), Dump (dumps_xyz / dump_xyz onto the       *)
(* stream), Foreign (a file whose coordinates are expressed in unit U), Load   *)
(* (every class-level load entry point, with source_units = the declared unit).*)
(*                                                                            *)
(* No floats.  A coordinate in memory is [u, s] = (10u + s) * 1e-7 Angstrom    *)
(* with |s| <= 4: u micro-Angstrom plus a seventh digit that a six-decimal     *)
(* writer must round away.  A coordinate in a text is an integer in units of   *)
(* 10^-dec of the text's distance unit.  The text is a flat sequence of lines  *)
(* (count / comment / atom), so that frame structure is something the writer   *)
(* has to produce and the reader has to recover, not something given.          *)
(* Loaded coordinates are integers in units of `res` micro-Angstrom.           *)
EXTENDS Integers, Sequences, FiniteSets, TLC
CONSTANTS GeomPool,    \* objects offered to Make: [cls, frames, world]; frame = Seq([el, ty, x, y, z]), x = [u, s];
                       \* world = the object's length scale in Angstrom (1 or 1000): all integers of an object and of
                       \* the text it is written to are micro-units of that scale, so that |x| up to 2e6 A (13 and
                       \* more characters in %.6f) stays inside 32-bit integers; at scale 1000 the written precision
                       \* the model sees is 1e-3 A (six decimals of the scale unit)
                       \* el = element symbol or "dummy" (no element, Z = 0); ty = atom type class "regular" | "dummy":
                       \* an atom of dummy TYPE may carry a real element (Du.H of a mol2 file) -- the text carries
                       \* the ELEMENT, the type is not part of the statement
          SmallPool,   \* the objects that may be dumped one after another into the same stream
          FilePool,    \* frames lists with integer "grain" coordinates: files of other programs
          Units,       \* names accepted as source_units (members of DistanceUnit, aliases included)
          Dec,         \* number of decimals the default format of the writer emits (read off its text by the harness)
          FmtDecs,     \* decimals a caller asks for through dump_xyz(stream, fmt = ...)
          FmtPool,     \* the objects written with such a format in the model
          MaxDumps,    \* bound on dumps into one stream
          Deviations   \* named wrong behaviours (non-vacuity; the first three describe the pinned tree)
VARIABLES mem, text, truth, last
vars == <<mem, text, truth, last>>
sv   == <<mem, text, truth>>

GeomClasses == {"CartesianGeometry", "Structure", "Molecule"}
Ens         == "ConformerEnsemble"
OneEntries  == {"load_path", "load_stream", "loads"}
AllEntries  == {"load_all_path", "load_all_stream", "loads_all"}

Pow10(k) == CASE k = 0 -> 1 [] k = 1 -> 10 [] k = 2 -> 100 [] k = 3 -> 1000 [] k = 4 -> 10000 [] k = 5 -> 100000
              [] k = 6 -> 1000000 [] k = 7 -> 10000000 [] k = 8 -> 100000000 [] k = 9 -> 1000000000
Abs(a) == IF a < 0 THEN -a ELSE a

(* ---- the unit table: how many of the unit make one Angstrom, as n * 10^p ---- *)
(* written from physics (1 A = 100 pm = 0.1 nm = 1e5 fm = 1.88973 Bohr), not   *)
(* from the code                                                               *)
PerAngstrom == [A |-> [n |-> 1, p |-> 0], Angstrom |-> [n |-> 1, p |-> 0],
                Bohr |-> [n |-> 188973, p |-> -5], au |-> [n |-> 188973, p |-> -5],
                pm |-> [n |-> 1, p |-> 2], nm |-> [n |-> 1, p |-> -1], fm |-> [n |-> 1, p |-> 5]]
KnownUnits  == DOMAIN PerAngstrom
SameUnit(U, V) == PerAngstrom[U] = PerAngstrom[V]
IsAngstrom(U)  == PerAngstrom[U] = [n |-> 1, p |-> 0]
(* the Bohr constant is given to six digits: coordinates of a Bohr file are compared at 1e-4 A *)
Res(U) == IF PerAngstrom[U].n = 1 THEN 1 ELSE 100

(* floor((q + r/n) * 10^k) for 0 <= r < n, digit by digit (TLC integers are 32 bit) *)
RECURSIVE LongDiv(_, _, _, _)
LongDiv(q, r, k, n) == IF k = 0 THEN q ELSE LongDiv(q * 10 + (r * 10) \div n, (r * 10) % n, k - 1, n)

(* file value t * 10^-d of unit U  ->  micro-Angstrom (floor): DIVIDE by units-per-Angstrom *)
ToMicroA(U, t, d) ==
  LET n == PerAngstrom[U].n
      e == 6 - d - PerAngstrom[U].p
  IN IF e >= 0 THEN LongDiv(t \div n, t % n, e, n) ELSE (t \div n) \div Pow10(-e)
(* the classic mistake: multiply *)
ToMicroAInverted(U, t, d) ==
  LET n == PerAngstrom[U].n
      e == 6 - d + PerAngstrom[U].p
  IN IF e >= 0 THEN t * n * Pow10(e) ELSE (t * n) \div Pow10(-e)

(* the object's length scale as a decimal exponent: 10^world Angstrom (0; 3 for |x| up to 2e6 A; -3 for digits down    *)
(* to 1e-10 A); a writer with D decimals of Angstrom shows D + world decimals of the scale unit, of which the model,   *)
(* whose coordinates have six decimals plus the digit s, follows at most six                                          *)
World(g) == IF "world" \in DOMAIN g THEN g.world ELSE 0
ModelDec(D, w) == IF D + w > 6 THEN 6 ELSE D + w
(* the comment line holds the object's name: "" / " " / a tab give a BLANK line inside the frame *)
BlankNames == {"empty", "space", "tab"}
BlankName(g) == "name" \in DOMAIN g /\ g.name \in BlankNames
(* ---- writing: "to the written precision" = nearest multiple of 10^-d ------- *)
Q(d) == Pow10(6 - d)                                     \* micro-units per unit of the last written place
NoTie(c, d) == 2 * (10 * (c.u % Q(d)) + c.s) # 10 * Q(d)  \* pools avoid exact halves (binary floats have none)
RoundTo(c, d) == LET q  == Q(d)
                     t0 == c.u \div q
                     v  == 10 * (c.u - t0 * q) + c.s
                 IN IF 2 * v > 10 * q THEN t0 + 1 ELSE t0

WrittenEl(a) == IF "DummyTypeHidesElement" \in Deviations /\ a.ty = "dummy" THEN "dummy" ELSE a.el
(* a value needs 13 or more characters in %.6f once it reaches 1e5 or -1e4 units of Angstrom: a writer that lets   *)
(* such a value touch its neighbour produces a line no reader can split (deviation WideColumnsFuse, ensemble writer) *)
WideK(t, d) == t >= Pow10(d + 2) \/ t <= -Pow10(d + 1)        \* t in 10^-d kiloangstrom: >= 1e5 A or <= -1e4 A
(* o = how the object is written: [d: model decimals, w: scale, ens: by the ensemble writer, cap: decimals that are   *)
(* real (= d, unless deviation FmtPrecisionCapped rounds at six decimals of Angstrom whatever fmt asks), blank]       *)
Written(c, o) == IF o.cap < o.d THEN RoundTo(c, o.cap) * Pow10(o.d - o.cap) ELSE RoundTo(c, o.d)
AtomLine(a, o) ==
  LET x == Written(a.x, o)
      y == Written(a.y, o)
      z == Written(a.z, o)
  IN IF "WideColumnsFuse" \in Deviations /\ o.ens /\ o.w = 3 /\ (WideK(y, o.d) \/ WideK(z, o.d))
       THEN [k |-> "bad"]
     ELSE IF "ColumnsSwapped" \in Deviations
       THEN [k |-> "atom", el |-> WrittenEl(a), x |-> x, y |-> z, z |-> y]
       ELSE [k |-> "atom", el |-> WrittenEl(a), x |-> x, y |-> y, z |-> z]
Header(f, blank)  == <<[k |-> "count", n |-> Len(f)], [k |-> "comment", blank |-> blank]>>
Body(f, o)        == [i \in 1..Len(f) |-> AtomLine(f[i], o)]
FrameLines(f, o)  == Header(f, o.blank) \o Body(f, o)
RECURSIVE RenderFrames(_, _, _)
RenderFrames(fs, o, first) ==
  IF fs = <<>> THEN <<>>
  ELSE (IF "FrameBoundaryLost" \in Deviations /\ ~first THEN Body(Head(fs), o) ELSE FrameLines(Head(fs), o))
       \o RenderFrames(Tail(fs), o, FALSE)

(* what a frame written with d decimals denotes, in micro-units *)
Denotes(f, d) == [i \in 1..Len(f) |-> <<f[i].el, RoundTo(f[i].x, d) * Q(d), RoundTo(f[i].y, d) * Q(d),
                                        RoundTo(f[i].z, d) * Q(d)>>]

(* ---- reading: line-level parse, frames recovered from the declared counts -- *)
Bad == [ok |-> FALSE, frames |-> <<>>]
FrameAt(ls, p) ==   \* the frame that starts at line p of ls: [ok, atoms, next]
  IF p > Len(ls) \/ ls[p].k # "count" THEN [ok |-> FALSE, atoms |-> <<>>, next |-> p]
  ELSE LET n == ls[p].n IN
       IF p + n + 1 > Len(ls) \/ \E i \in (p + 2)..(p + n + 1) : ls[i].k # "atom"   \* line p+1 is a comment whatever it holds
         THEN [ok |-> FALSE, atoms |-> <<>>, next |-> p]
         ELSE [ok |-> TRUE, atoms |-> SubSeq(ls, p + 2, p + n + 1), next |-> p + n + 2]
RECURSIVE ParseXyzFrom(_, _, _)
ParseXyzFrom(ls, p, acc) ==
  IF p > Len(ls) THEN [ok |-> TRUE, frames |-> acc]
  ELSE LET f == FrameAt(ls, p) IN
       IF f.ok THEN ParseXyzFrom(ls, f.next, Append(acc, f.atoms)) ELSE Bad
ParseXyzAll(ls)   == ParseXyzFrom(ls, 1, <<>>)
ParseXyzFirst(ls) == LET f == FrameAt(ls, 1) IN IF f.ok THEN [ok |-> TRUE, frames |-> <<f.atoms>>] ELSE Bad
(* a mol2 text is one record per @<TRIPOS>MOLECULE block; its line-level model is the business of C07/C10 *)
ParseMol2All(ls)   == [ok |-> TRUE, frames |-> [i \in 1..Len(ls) |-> ls[i].atoms]]
ParseMol2First(ls) == IF ls = <<>> THEN Bad ELSE [ok |-> TRUE, frames |-> <<ls[1].atoms>>]
(* deviation BlankLinesDropped: the reader skips every blank line, also the blank comment line of a frame *)
Seen(ls) == IF "BlankLinesDropped" \in Deviations THEN SelectSeq(ls, LAMBDA l : ~(l.k = "comment" /\ l.blank)) ELSE ls
Parse(t, which) == CASE t.fmt = "xyz"  -> IF which = "first" THEN ParseXyzFirst(Seen(t.lines)) ELSE ParseXyzAll(Seen(t.lines))
                     [] t.fmt = "mol2" -> IF which = "first" THEN ParseMol2First(t.lines) ELSE ParseMol2All(t.lines)

ElsOf(f) == [i \in 1..Len(f) |-> f[i].el]
Homogeneous(fs) == \A i \in 1..Len(fs) : ElsOf(fs[i]) = ElsOf(fs[1])
ElsOfT(f) == [i \in 1..Len(f) |-> f[i][1]]                      \* same, for frames of <<el, x, y, z>> tuples
HomogeneousT(fs) == \A i \in 1..Len(fs) : ElsOfT(fs[i]) = ElsOfT(fs[1])

Conv(fs, U, d, res, inverted) ==
  LET c(t) == (IF inverted THEN ToMicroAInverted(U, t, d) ELSE ToMicroA(U, t, d)) \div res
  IN [j \in 1..Len(fs) |-> [i \in 1..Len(fs[j]) |-> <<fs[j][i].el, c(fs[j][i].x), c(fs[j][i].y), c(fs[j][i].z)>>]]

(* ---- state machine ---------------------------------------------------------- *)
NoObj  == [cls |-> "none", frames |-> <<>>]
NoText == [fmt |-> "none", unit |-> "Angstrom", dec |-> 0, lines |-> <<>>, small |-> TRUE, dumps |-> 0, world |-> 0]

Init == mem = NoObj /\ text = NoText /\ truth = <<>> /\ last = [act |-> "init"]

(* construct an object of class g.cls holding g.frames *)
MakeAny(g) ==
  /\ mem = NoObj
  /\ mem' = g
  /\ UNCHANGED <<text, truth>>
  /\ last' = [act |-> "make", g |-> g, out |-> "ok"]
Make(g) == /\ text.fmt \in {"none", "xyz"}
           /\ IF text.fmt = "none" THEN TRUE ELSE text.small /\ g \in SmallPool /\ text.dumps < MaxDumps
           /\ MakeAny(g)

(* mem.dumps_xyz() appended to the text / mem.dump_xyz(stream) / mem.dump_xyz(stream, fmt = "<width>.<D>f"):      *)
(* the writer shows D decimals of Angstrom (the default format's D is read off its output; with route "dump_fmt" the *)
(* caller chooses D) -- every written decimal is a decimal of the coordinate                                        *)
DumpFrames(a, fs, D) ==
  LET w == World(mem)
      d == ModelDec(D, w)
      capped == "FmtPrecisionCapped" \in Deviations /\ a.route = "dump_fmt" /\ ModelDec(6, w) < d /\ ModelDec(6, w) >= 0
      o == [d |-> d, w |-> w, ens |-> mem.cls = Ens /\ Len(fs) = Len(mem.frames), blank |-> BlankName(mem),
            cap |-> IF capped THEN ModelDec(6, w) ELSE d]
  IN
  /\ mem # NoObj /\ text.fmt \in {"none", "xyz"} /\ d >= 0
  /\ text.fmt = "xyz" => text.world = w /\ text.dec = d       \* one length scale and one precision per text
  /\ text' = [fmt |-> "xyz", unit |-> "Angstrom", dec |-> d, lines |-> text.lines \o RenderFrames(fs, o, TRUE),
              small |-> text.small /\ mem \in SmallPool, dumps |-> text.dumps + 1, world |-> w]
  /\ truth' = truth \o [j \in 1..Len(fs) |-> Denotes(fs[j], d)]
  /\ mem' = NoObj
  /\ last' = a @@ [out |-> "ok"]
Dump(route, D) == /\ mem # NoObj
                  /\ route = "dump_fmt" => mem.cls # Ens       \* the ensemble writer takes no format
                  /\ DumpFrames([act |-> "dump", route |-> route, D |-> D], mem.frames, D)
(* mem[i].dumps_xyz() / mem[i].dump_xyz(stream[, fmt]): the Conformer view number i of an ensemble writes its one frame *)
DumpConformer(route, i, D) ==
  /\ mem.cls = Ens /\ i \in 1..Len(mem.frames)
  /\ DumpFrames([act |-> "dumpconf", route |-> route, i |-> i, D |-> D], <<mem.frames[i]>>, D)

(* any text appears (a file of another program); tr = the frames it denotes in micro-Angstrom *)
PutText(a, t, tr) ==
  /\ mem = NoObj /\ text = NoText
  /\ text' = t /\ truth' = tr /\ UNCHANGED mem
  /\ last' = a @@ [out |-> "ok"]

(* a file holding the frames fs, coordinate c meaning c * 10^g micro-Angstrom, expressed in unit U:       *)
(* the value c * 10^g * 1e-6 A * (n * 10^p U/A) is written as the integer c * n with 6 - p - g decimals   *)
FileDec(U, g) == 6 - PerAngstrom[U].p - g
Foreign(fs, U, fmt, g) ==
  LET n  == PerAngstrom[U].n
      d  == FileDec(U, g)
      ln(a) == [k |-> "atom", el |-> a.el, x |-> a.x * n, y |-> a.y * n, z |-> a.z * n]
      body(f) == [i \in 1..Len(f) |-> ln(f[i])]
      RECURSIVE xyz(_)
      \* files of other programs often leave the comment line empty: here every other frame does
      xyz(s) == IF s = <<>> THEN <<>> ELSE Header(Head(s), (Len(s) + Len(Head(s))) % 2 = 0) \o body(Head(s)) \o xyz(Tail(s))
      m2  == [j \in 1..Len(fs) |-> [k |-> "mol2", atoms |-> body(fs[j])]]
      tr  == [j \in 1..Len(fs) |-> [i \in 1..Len(fs[j]) |->
                 <<fs[j][i].el, fs[j][i].x * Pow10(g), fs[j][i].y * Pow10(g), fs[j][i].z * Pow10(g)>>]]
  IN /\ d \in 0..9
     /\ n > 1 => \A j \in 1..Len(fs) : \A i \in 1..Len(fs[j]) :          \* Bohr: |x| <= 20 A, see Res
                   Abs(fs[j][i].x) <= 200 /\ Abs(fs[j][i].y) <= 200 /\ Abs(fs[j][i].z) <= 200
     /\ fmt = "mol2" => \A j \in 1..Len(fs) : Len(fs[j]) > 0
     /\ LET ls == IF fmt = "xyz" THEN xyz(fs) ELSE m2 IN
        PutText([act |-> "foreign", fmt |-> fmt, unit |-> U, dec |-> d, lines |-> ls],
                [fmt |-> fmt, unit |-> U, dec |-> d, lines |-> ls, small |-> FALSE, dumps |-> 0, world |-> 0], tr)

(* cls.<entry>_{xyz|mol2}(text, source_units = U), U naming the unit the file declares; the loaded       *)
(* coordinates are reported in units of res micro-Angstrom                                              *)
Load(cls, entry, U, res) ==
  LET ens   == cls = Ens
      which == IF ens \/ entry \in AllEntries THEN "all" ELSE "first"
      p     == Parse(text, which)
      ret   == IF ens THEN "ensemble" ELSE IF entry \in AllEntries THEN "list" ELSE "object"
      a     == [act |-> "load", fmt |-> text.fmt, cls |-> cls, entry |-> entry, units |-> U, res |-> res, world |-> text.world]
      inv   == "UnitFactorInverted" \in Deviations
      noconv == "EnsembleLoadsIgnoresUnits" \in Deviations /\ ens /\ entry = "loads"
      empty == "EmptyFrameUnreadable" \in Deviations /\ text.fmt = "xyz" /\ \E j \in 1..Len(p.frames) : p.frames[j] = <<>>
  IN /\ mem = NoObj /\ text.fmt # "none"
     /\ U \in Units /\ SameUnit(U, text.unit)
     /\ IF ens THEN entry \in OneEntries ELSE entry \in OneEntries \cup AllEntries
     /\ text.fmt = "mol2" => cls # "CartesianGeometry"
     /\ ens => HomogeneousT(truth)                     \* one constitution per ensemble: otherwise nothing is promised
     /\ UNCHANGED sv
     /\ IF ~p.ok \/ empty
          THEN last' = a @@ [out |-> "error"]
          ELSE last' = a @@ [out |-> "ok", ret |-> ret,
                             val |-> IF noconv THEN Conv(p.frames, "Angstrom", text.dec, res, FALSE)
                                               ELSE Conv(p.frames, U, text.dec, res, inv)]

DumpLastConformer(r) == /\ mem # NoObj
                        /\ DumpConformer(r, Len(mem.frames), Dec)
(* the caller's format: offered for the objects of FmtPool, every D of FmtDecs *)
DumpFmt(D) == /\ mem \in FmtPool /\ Dump("dump_fmt", D)
DumpLastConformerFmt(D) == /\ mem \in FmtPool /\ mem # NoObj
                           /\ DumpConformer("dump_fmt", Len(mem.frames), D)
Classes == GeomClasses \cup {Ens}
Next == \/ \E g \in GeomPool : Make(g)
        \/ \E r \in {"dumps", "dump"} : Dump(r, Dec)
        \/ \E r \in {"dumps", "dump"} : DumpLastConformer(r)
        \/ \E D \in FmtDecs : DumpFmt(D)
        \/ \E D \in FmtDecs : DumpLastConformerFmt(D)
        \/ \E fs \in FilePool, U \in Units, fmt \in {"xyz", "mol2"}, g \in {0, 1, 3, 5} : Foreign(fs, U, fmt, g)
        \/ \E c \in Classes, e \in OneEntries \cup AllEntries, U \in Units : Load(c, e, U, Res(U))
Spec == Init /\ [][Next]_vars

(* ---- the clauses of C08 ------------------------------------------------------ *)
Scale(fs, res) == [j \in 1..Len(fs) |-> [i \in 1..Len(fs[j]) |->
                     <<fs[j][i][1], fs[j][i][2] \div res, fs[j][i][3] \div res, fs[j][i][4] \div res>>]]
(* the text, read as the format says, is the frames that were written: count, order, elements,            *)
(* coordinates to the written precision, frame by frame                                                   *)
TextDenotesTruth ==
  text.fmt # "none" =>
     LET p == Parse(text, "all") IN p.ok /\ Conv(p.frames, text.unit, text.dec, Res(text.unit), FALSE) = Scale(truth, Res(text.unit))
(* every load entry point returns, in Angstrom, what the file denotes (all frames, or the first one)      *)
LoadFaithful ==
  [][last'.act = "load" =>
       /\ last'.out = "ok"
       /\ last'.val = Scale(IF last'.ret = "object" THEN <<truth[1]>> ELSE truth, last'.res)]_vars
(* physical distances are unchanged: a coordinate difference of the file, converted, is the difference    *)
(* of the loaded coordinates (first two atoms of the first frame, x axis, exactly representable pools)    *)
UnitsPreserveDistance ==
  [][(last'.act = "load" /\ last'.out = "ok" /\ Len(truth[1]) >= 2
       /\ Abs(truth[1][1][2]) <= 1000000000 /\ Abs(truth[1][2][2]) <= 1000000000           \* 32-bit differences
       /\ Abs(last'.val[1][1][2]) <= 1000000000 /\ Abs(last'.val[1][2][2]) <= 1000000000) =>
       last'.val[1][2][2] - last'.val[1][1][2] = (truth[1][2][2] - truth[1][1][2]) \div last'.res]_vars
TypeOK == /\ mem = NoObj \/ mem.cls \in Classes
          /\ text.fmt \in {"none", "xyz", "mol2"} /\ text.unit \in KnownUnits
          /\ text.fmt # "none" => Len(truth) >= 1
PoolOK == /\ \A g \in GeomPool : /\ g.cls \in Classes /\ Len(g.frames) >= 1 /\ World(g) \in {-3, 0, 3}
                                 /\ g.cls # Ens => Len(g.frames) = 1
                                 /\ \A j \in 1..Len(g.frames) : \A i \in 1..Len(g.frames[j]) :
                                       LET a == g.frames[j][i] IN
                                         /\ a.ty \in {"regular", "dummy"}
                                         /\ (a.el = "dummy" => a.ty = "dummy")
                                         /\ \A D \in {Dec} \cup (IF g \in FmtPool THEN FmtDecs ELSE {}) :
                                               LET d == ModelDec(D, World(g)) IN
                                               (d >= 0) => (NoTie(a.x, d) /\ NoTie(a.y, d) /\ NoTie(a.z, d))
                                 /\ \A j \in 1..Len(g.frames) : ElsOf(g.frames[j]) = ElsOf(g.frames[1])
          /\ SmallPool \subseteq GeomPool /\ FmtPool \subseteq GeomPool /\ Units \subseteq KnownUnits /\ Dec \in 1..12
=============================================================================
