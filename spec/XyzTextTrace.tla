--------------------------- MODULE XyzTextTrace ---------------------------
(* Trace validation for C08: every recorded history of real calls (object      *)
(* built, dumped onto a stream, texts of other programs in any unit, loads by  *)
(* every class-level entry point) must be a behaviour of XyzText.  The inputs  *)
(* come from the events (seeded random geometries, bundled files), everything  *)
(* expected -- the lines the writer must produce, the frames and coordinates   *)
(* each load must return -- is computed here by the actions of XyzText.        *)
(* Many traces are validated in one TLC run (DESIGN 2.2).                      *)
EXTENDS XyzText, Json, IOUtils, TLCExt
VARIABLES ti, l
tvars == <<vars, ti, l>>
Traces == ndJsonDeserialize(IOEnv.TRACE_FILE)
NT == Len(Traces)
Tr == Traces[ti].ev
Ev == Tr[l]

(* a loaded coordinate, rounded to the nearest micro-Angstrom by the harness, against the floor computed  *)
(* by ToMicroA; the Bohr constant is given to six digits, which bounds a Bohr file's relative accuracy    *)
Tol(U, x) == 1 + (IF PerAngstrom[U].n > 1 THEN Abs(x) \div 200000 ELSE 0)
Near(U, a, b) == Abs(a - b) <= Tol(U, b)
Close(U, got, want) ==
  /\ Len(got) = Len(want)
  /\ \A j \in 1..Len(want) :
       /\ Len(got[j]) = Len(want[j])
       /\ \A i \in 1..Len(want[j]) :
            /\ got[j][i][1] = want[j][i][1]
            /\ Near(U, got[j][i][2], want[j][i][2]) /\ Near(U, got[j][i][3], want[j][i][3])
            /\ Near(U, got[j][i][4], want[j][i][4])

TMake == /\ Ev.ev = "make" /\ MakeAny(Ev.g)
(* the text on the stream after the dump, tokenized by the harness, is what Render says *)
TDump == /\ Ev.ev = "dump" /\ Dump(Ev.route, Ev.D)
         /\ text'.lines = Ev.lines
TDumpConf == /\ Ev.ev = "dumpconf" /\ DumpConformer(Ev.route, Ev.i, Ev.D)
             /\ text'.lines = Ev.lines
(* a text of another program: whatever frames it holds, in the unit it declares *)
TForeign ==
  /\ Ev.ev = "foreign"
  /\ LET t == [fmt |-> Ev.fmt, unit |-> Ev.unit, dec |-> Ev.dec, lines |-> Ev.lines, small |-> FALSE, dumps |-> 0, world |-> 0]
         p == Parse(t, "all")
     IN /\ p.ok
        /\ PutText([act |-> "foreign", fmt |-> Ev.fmt, unit |-> Ev.unit, dec |-> Ev.dec], t,
                   Conv(p.frames, Ev.unit, Ev.dec, 1, FALSE))
TLoad == /\ Ev.ev = "load" /\ Load(Ev.cls, Ev.entry, Ev.units, 1)
         /\ last'.out = Ev.out
         \* IF .. THEN TRUE: evaluated as one value (TLC's ENABLED would otherwise unroll every conjunct of
         \* every atom onto its continuation stack)
         /\ Ev.out = "ok" => IF /\ Ev.ret = last'.ret
                                /\ Ev.rcls = Ev.cls               \* objects of the class that was asked
                                /\ Close(Ev.units, Ev.val, last'.val)
                             THEN TRUE ELSE FALSE

Step == /\ ti <= NT /\ l <= Len(Tr)
        /\ (TMake \/ TDump \/ TDumpConf \/ TForeign \/ TLoad)
        /\ l' = l + 1 /\ ti' = ti

Reset == mem' = NoObj /\ text' = NoText /\ truth' = <<>> /\ last' = [act |-> "init"]
NextTrace == ti' = ti + 1 /\ l' = 1 /\ Reset
Finish == /\ ti <= NT /\ l = Len(Tr) + 1
          /\ PrintT(<<"VERDICT", Traces[ti].tid, "ACCEPT">>)
          /\ NextTrace
Stuck  == /\ ti <= NT /\ l <= Len(Tr) /\ ~ENABLED Step
          /\ PrintT(<<"VERDICT", Traces[ti].tid, "STUCK", l>>)
          /\ NextTrace
TraceInit == Init /\ ti = 1 /\ l = 1
TraceNext == Step \/ Finish \/ Stuck
TraceSpec == TraceInit /\ [][TraceNext]_tvars
NoPool  == {}
DevNone == {}
=============================================================================
