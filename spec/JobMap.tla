------------------------------- MODULE JobMap -------------------------------
(* C18: histories of jobmap() runs over a small source library.               *)
(* Each source key k has NSub sub-items (1 = plain job, 2 = vectorised job,   *)
(* one JobInput per conformer).  A sub-item's command follows a script: the   *)
(* outcome of its 1st, 2nd, ... execution ("ok", "fail" = non-zero exit,       *)
(* "omit" = exits 0 without writing the requested file).  `ver` stands for    *)
(* the job arguments (they enter the command text, hence the input hash).     *)
(* One action = one complete jobmap() call.                                   *)
EXTENDS Naturals, Sequences, FiniteSets, TLC
CONSTANTS Keys, Foreign, NSub, Scripts, Vers, MaxRuns, Deviations
VARIABLES phase,   \* "setup" | "runs"
          script,  \* [Keys -> [1..NSub -> Seq(outcome)]]
          dst,     \* [subset of Keys \cup Foreign -> version of the stored result, 0 = pre-populated]
          cache,   \* [Keys -> [1..NSub -> [hash : Vers \cup {0}, ok : BOOLEAN]]]   hash 0 = no cached output
          execs,   \* [Keys -> [1..NSub -> Nat]]  how often the command was executed
          runs, last
vars == <<phase, script, dst, cache, execs, runs, last>>
sv == <<phase, script, dst, cache, execs, runs>>
Sub == 1..NSub

Init == /\ phase = "setup"
        /\ script = [k \in Keys |-> [i \in Sub |-> <<"ok">>]]
        /\ dst = <<>> /\ runs = 0
        /\ cache = [k \in Keys |-> [i \in Sub |-> [hash |-> 0, ok |-> FALSE]]]
        /\ execs = [k \in Keys |-> [i \in Sub |-> 0]]
        /\ last = [act |-> "init"]

(* the harness writes the scripts and pre-populates the destination (a source key and/or a foreign key) *)
Setup(sc, pre) ==
  /\ phase = "setup" /\ phase' = "runs" /\ Cardinality(pre) <= 2
  /\ script' = sc
  /\ dst' = [k \in pre |-> 0]
  /\ UNCHANGED <<cache, execs, runs>>
  /\ last' = [act |-> "setup", script |-> sc, pre |-> pre]

Outcome(k, i) == LET s == script[k][i] n == execs[k][i] + 1 IN IF n <= Len(s) THEN s[n] ELSE s[Len(s)]
Reusable(k, i, v) ==
  IF "ReuseFailed" \in Deviations THEN cache[k][i].hash = v
  ELSE IF "ReuseStale" \in Deviations THEN cache[k][i].hash # 0 /\ cache[k][i].ok
  ELSE cache[k][i].hash = v /\ cache[k][i].ok

Run(v) ==
  /\ phase = "runs" /\ runs < MaxRuns /\ runs' = runs + 1
  /\ LET todo == IF "RedoExisting" \in Deviations THEN Keys ELSE Keys \ DOMAIN dst
         exe(k, i) == k \in todo /\ ~Reusable(k, i, v)
         okNow(k, i) == IF exe(k, i) THEN Outcome(k, i) = "ok" ELSE cache[k][i].ok
         done == {k \in todo : \A i \in Sub : okNow(k, i) \/ "StoreFailed" \in Deviations}
     IN /\ execs' = [k \in Keys |-> [i \in Sub |-> IF exe(k, i) THEN execs[k][i] + 1 ELSE execs[k][i]]]
        /\ cache' = [k \in Keys |-> [i \in Sub |-> IF exe(k, i) THEN [hash |-> v, ok |-> Outcome(k, i) = "ok"]
                                                      ELSE cache[k][i]]]
        /\ dst' = [k \in DOMAIN dst \cup done |-> IF k \in DOMAIN dst /\ k \notin done THEN dst[k] ELSE v]
        /\ last' = [act |-> "run", ver |-> v, out |-> "ok"]
  /\ UNCHANGED <<phase, script>>

(* the user points jobmap at a fresh destination library but keeps the cache directory *)
FreshDst ==
  /\ phase = "runs" /\ runs < MaxRuns /\ dst # <<>>
  /\ dst' = <<>> /\ UNCHANGED <<phase, script, cache, execs, runs>>
  /\ last' = [act |-> "freshdst"]

Next == \/ FreshDst
        \/ \E sc \in [Keys -> [Sub -> Scripts]], pre \in SUBSET (Keys \cup Foreign) : Setup(sc, pre)
        \/ \E v \in Vers : Run(v)
Spec == Init /\ [][Next]_vars

Obs == [dst |-> dst, execs |-> execs]

(* ----- clauses of C18 ------------------------------------------------------ *)
ForeignKeysUntouched == [][last'.act = "run" => \A k \in DOMAIN dst : k \in DOMAIN dst' /\ dst'[k] = dst[k]]_vars   \* also: existing items never recomputed
DestIsExactlySuccesses == \A k \in DOMAIN dst : dst[k] = 0 \/ (k \in Keys /\ \A i \in Sub : cache[k][i].ok /\ cache[k][i].hash = dst[k])
NoReuseOfStaleOrFailed == [][last'.act = "run" =>
                               \A k \in DOMAIN dst' \ DOMAIN dst : \A i \in Sub : cache'[k][i].hash = last'.ver /\ cache'[k][i].ok]_vars
AtMostOncePerValidInput == [][\A k \in Keys, i \in Sub :
                                 /\ execs'[k][i] <= execs[k][i] + 1
                                 /\ (execs'[k][i] > execs[k][i] => (k \notin DOMAIN dst /\ ~(cache[k][i].ok /\ cache[k][i].hash = last'.ver)))]_vars
MustExecuteInvalid == [][last'.act = "run" => \A k \in Keys \ DOMAIN dst : \A i \in Sub :
                              ~(cache[k][i].ok /\ cache[k][i].hash = last'.ver) => execs'[k][i] = execs[k][i] + 1]_vars
RerunOnlyMissing == [][\A k \in Keys : k \in DOMAIN dst => execs'[k] = execs[k]]_vars
=============================================================================
