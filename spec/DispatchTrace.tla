--------------------------- MODULE DispatchTrace ---------------------------
(* Trace validation for C09: recorded histories of real ml.dump / dumps / load  *)
(* / loads / load_all / loads_all calls (random objects, targets, formats,      *)
(* modes, output types, names) must be behaviours of Dispatch.  Each load event *)
(* lists every class-level method whose result on the same input equals the     *)
(* entry point's result; the specification says which one has to be among them. *)
(* The tables of objects / documents / targets of a batch travel in its first   *)
(* trace record.                                                                *)
EXTENDS Dispatch, Json, IOUtils, TLCExt
VARIABLES ti, l
tvars == <<vars, ti, l>>
Traces == ndJsonDeserialize(IOEnv.TRACE_FILE)
NT == Len(Traces)
Tr == Traces[ti].ev
Ev == Tr[l]
ToSet(s) == {s[i] : i \in 1..Len(s)}
ObjsT    == Traces[1].objs
DocsT    == Traces[1].docs
PathsT   == Traces[1].paths
StreamsT == ToSet(Traces[1].streams)
SrcsT    == Traces[1].srcpaths

(* the outcome the table demands against the outcome observed *)
Same(exp, e) ==
  /\ exp.out = e.out
  /\ exp.out = "ok" => /\ exp.shape = e.shape /\ exp.cls = e.cls /\ exp.count = e.count
                       /\ e.nameok
                       /\ exp.route \in ToSet(e.agree)

TDump == /\ Ev.ev = "dump"
         /\ IF Ev.tkind = "stream" THEN DumpStream(Ev.obj, Ev.tgt, Ev.fmtarg)
                                   ELSE DumpPath(Ev.obj, Ev.tgt, Ev.tkind, Ev.fmtarg, Ev.mode)
         /\ last'.out = Ev.out
         /\ files' = Ev.files /\ streams' = Ev.streams          \* every target, as tokenized after the call
TDumps == /\ Ev.ev = "dumps" /\ DumpsAny(Ev.obj, Ev.fmtarg)
          /\ last'.out = Ev.out
          /\ Ev.out = "ok" => last'.val = Ev.val
TLoad == /\ Ev.ev = "load" /\ LoadAny(Ev.fn, Ev.doc, Ev.fmtarg, Ev.src, Ev.otype, Ev.named, Ev.keyed)
         /\ IF Same(last', Ev) THEN TRUE ELSE FALSE
TReplace == /\ Ev.ev = "replace" /\ ReplaceAny(Ev.sp, Ev.doc)
            /\ srcs' = Ev.srcs                                 \* which document every source path holds, as observed
TLoadSrc == /\ Ev.ev = "loadsrc" /\ LoadSrcAny(Ev.fn, Ev.sp, Ev.fmtarg, Ev.src, Ev.otype, Ev.named, Ev.keyed)
            /\ IF Same(last', Ev) THEN TRUE ELSE FALSE
TLoadBack == /\ Ev.ev = "loadback" /\ LoadBack(Ev.fn, Ev.tgt, Ev.otype, Ev.named)
             /\ IF Same(last', Ev) THEN TRUE ELSE FALSE

Step == /\ ti <= NT /\ l <= Len(Tr)
        /\ (TDump \/ TDumps \/ TLoad \/ TLoadBack \/ TReplace \/ TLoadSrc)
        /\ l' = l + 1 /\ ti' = ti

Reset == /\ files' = [p \in DOMAIN Paths |-> Absent]
         /\ streams' = [s \in Streams |-> [open |-> TRUE, content |-> <<>>]]
         /\ nd' = 0 /\ last' = [act |-> "init"]
         /\ srcs' = [p \in DOMAIN SrcPaths |-> "none"] /\ nr' = 0 /\ cur' = "none"
         /\ memo' = [p \in DOMAIN SrcPaths |-> "none"]
NextTrace == ti' = ti + 1 /\ l' = 1 /\ Reset
Finish == /\ ti <= NT /\ l = Len(Tr) + 1
          /\ PrintT(<<"VERDICT", Traces[ti].tid, "ACCEPT">>)
          /\ NextTrace
Stuck  == /\ ti <= NT /\ l <= Len(Tr) /\ ~ENABLED Step
          /\ PrintT(<<"VERDICT", Traces[ti].tid, "STUCK", l>>)
          /\ NextTrace
TraceInit == Init /\ ti = 1 /\ l = 1
TraceNext == Step \/ Finish \/ Stuck
TraceSpec == TraceInit /\ [][TraceNext]_tvars
DevNone == {}
=============================================================================
