------------------------------ MODULE MCMolEdit ------------------------------
EXTENDS MolEdit, Json
Ids3 == {"a1", "a2", "a3"}
Ids4 == {"a1", "a2", "a3", "a4"}
Fr0 == <<>>
Fr1 == <<"f1">>
Fr2 == <<"f1", "f2">>
QG == {"a1", "a3"}
Fr3 == <<"f1", "f2", "f3">>
AP0 == <<>>
AP1 == <<"p1">>
AllI == Ids4 \cup {"f1", "f2", "f3", "p1"}
ElemM == [a \in AllI |-> CASE a = "a1" -> "O" [] a = "a2" -> "F" [] a = "a3" -> "O" [] a = "a4" -> "N" [] a = "p1" -> "X" [] OTHER -> "H"]
LabelM == [a \in AllI |-> CASE a = "a1" -> "L1" [] a = "a2" -> "L2" [] a = "a3" -> "L1" [] a = "a4" -> "L4" [] OTHER -> "none"]
ValM == [e \in {"O", "F", "N", "H", "X"} |-> CASE e = "O" -> 2 [] e = "F" -> 0 [] e = "N" -> 3 [] e = "H" -> 1 [] e = "X" -> 0]
DevNone == {}
DevNoneCharge == {"NoneCharge"}
DevKeepBonds == {"KeepBondsOfDeleted"}
DevWrongRow == {"WrongRowDeleted"}
View == sv
Emit == PrintT(ToJson([from |-> sv, act |-> last', to |-> sv', obs |-> Obs']))
=============================================================================
