------------------------------- MODULE Cdxml -------------------------------
(* C13: CDXML parsing reproduces the drawing.                                  *)
(*                                                                             *)
(* An abstract DRAWING D (what an independent ElementTree walk sees) is        *)
(*   D.frags  : fid -> [x, y, grp, nb, nodes, bonds, multi]   (x, y in 1/200pt)*)
(*     nodes  : key -> [el, iso, q, rad, nt, par, inner]      raw attributes   *)
(*              el = -1: no Element attribute; par = key of the placeholder    *)
(*              node whose nested fragment contains this node ("" = top level);*)
(*              inner = TRUE: the node is a placeholder carrying a fragment    *)
(*     bonds  : key -> [a, b, ord, disp, own]                 raw attributes   *)
(*     multi  : key -> sequence of node keys  (multi-attachment / hapto nodes) *)
(*   D.labels : sequence of [text, ns, face, x, y, grp]       every text box   *)
(* A RESULT R (what CDXMLFile[label] returned, abstracted through public       *)
(* accessors, atoms/bonds keyed by drawn ids through a witness) is             *)
(*   [fid, atoms: key -> [el, iso, q, nrad, ap], bonds: key -> [a, b, ord],    *)
(*    charge, mult, natoms, nbonds, cdig, gdig]                                *)
(*                                                                             *)
(* Part 1 states the property as predicates over (D, R) -- these are what the  *)
(* trace specification CdxmlTrace evaluates on recorded executions.            *)
(* Part 2 is a reference model of the parser (tables, nested expansion, label  *)
(* cache) with named Deviations; TLC checks that every step of the model       *)
(* satisfies Part 1 and that every deviation breaks a clause.                  *)
EXTENDS Integers, Sequences, FiniteSets, TLC

CONSTANTS Files,          \* model checking: file id -> drawing ; trace validation: unused
          MaxLookups, Deviations
VARIABLES file, cache, memo, nlook, last,
          objs,           \* tokens of the Molecule objects handed out so far (every look-up must hand out a new one)
          handed          \* model only: label -> the object last handed out for it, AS THE CALLER LEFT IT
vars == <<file, cache, memo, nlook, last, objs, handed>>
sv   == <<file, cache, memo, nlook, objs, handed>>

Abs(x)   == IF x < 0 THEN -x ELSE x
Range(s) == {s[i] : i \in DOMAIN s}
Empty    == [x \in {} |-> x]                       \* the function with empty domain
RECURSIVE SumOver(_, _)
SumOver(S, f) == IF S = {} THEN 0 ELSE LET x == CHOOSE y \in S : TRUE IN f[x] + SumOver(S \ {x}, f)

(* ===================== Part 1: the property ================================ *)
(* ---- tables: what a drawn attribute means --------------------------------- *)
IsECP(n)   == n.nt = "ExternalConnectionPoint"
Generic(n) == n.nt \in {"Unspecified", "GenericNickname", "Fragment", "Nickname"} /\ ~n.inner   \* unexpandable placeholder
InnerECP(n) == n.par # "" /\ IsECP(n)                      \* connection point of a nested fragment: consumed by the expansion
DrawnElement(n) == IF n.el < 0 THEN 6 ELSE n.el            \* an unlabelled node is a carbon
RadCount(r) == CASE r \in {"", "None"} -> 0 [] r = "Doublet" -> 1 [] r = "Singlet" -> 2 [] OTHER -> -1   \* -1: not in the table
OrderName(o) == CASE o \in {"", "1"} -> "Single" [] o = "2" -> "Double" [] o = "3" -> "Triple"
                  [] o = "1.5" -> "Aromatic" [] OTHER -> "?"                                           \* "?": not in the table
StereoMarks == {"WedgeBegin", "WedgedHashBegin", "WedgeEnd", "WedgedHashEnd", "Bold", "Hash"}
MirrorMark(d) == CASE d = "WedgeBegin" -> "WedgedHashBegin" [] d = "WedgedHashBegin" -> "WedgeBegin"
                   [] d = "WedgeEnd" -> "WedgedHashEnd" [] d = "WedgedHashEnd" -> "WedgeEnd"
                   [] d = "Bold" -> "Hash" [] d = "Hash" -> "Bold" [] OTHER -> d

(* ---- constitution of a fragment as drawn ---------------------------------- *)
Other(b, k)     == IF b.a = k THEN b.b ELSE b.a
BondsAt(F, k)   == {bk \in DOMAIN F.bonds : k \in {F.bonds[bk].a, F.bonds[bk].b}}
EcpOf(F, p)     == {k \in DOMAIN F.nodes : F.nodes[k].par = p /\ IsECP(F.nodes[k])}
AtomKeys(F)     == {k \in DOMAIN F.nodes : ~F.nodes[k].inner /\ ~InnerECP(F.nodes[k])}
(* scope: every nested fragment hangs on one outer bond and has one connection point with one bond *)
InScope(F) == \A p \in DOMAIN F.nodes : F.nodes[p].inner =>
                 /\ Cardinality(EcpOf(F, p)) = 1 /\ Cardinality(BondsAt(F, p)) = 1
                 /\ \A e \in EcpOf(F, p) : Cardinality(BondsAt(F, e)) = 1
(* the atom that a bond drawn to placeholder p really reaches: the neighbour of p's connection point *)
Through(F, p) == LET e == CHOOSE x \in EcpOf(F, p) : TRUE
                     bk == CHOOSE x \in BondsAt(F, e) : TRUE IN Other(F.bonds[bk], e)
RECURSIVE Real(_, _, _)
Real(F, k, fuel) == IF fuel = 0 \/ k \notin DOMAIN F.nodes \/ ~F.nodes[k].inner THEN k ELSE Real(F, Through(F, k), fuel - 1)
(* multi-attachment (hapto) nodes: one drawn bond stands for several; excluded from the bond and handedness clauses *)
HaptoBond(F, bk)  == F.bonds[bk].a \in DOMAIN F.multi \/ F.bonds[bk].b \in DOMAIN F.multi
HaptoCentresOf(F) == {c \in DOMAIN F.nodes : \E bk \in DOMAIN F.bonds, m \in DOMAIN F.multi :
                         {F.bonds[bk].a, F.bonds[bk].b} = {c, m}}
HaptoAttached(F)  == UNION {Range(F.multi[m]) : m \in DOMAIN F.multi}
TouchesInnerECP(F, bk) == \E k \in {F.bonds[bk].a, F.bonds[bk].b} : k \in DOMAIN F.nodes /\ InnerECP(F.nodes[k])
DrawnBondKeys(F)  == {bk \in DOMAIN F.bonds : ~HaptoBond(F, bk) /\ ~TouchesInnerECP(F, bk)}
WantEnds(F, bk)   == {Real(F, F.bonds[bk].a, 4), Real(F, F.bonds[bk].b, 4)}
(* atoms excluded from the handedness clause: hapto centres, attached atoms, and every atom bonded to one of them *)
HaptoZone(F) == LET core == HaptoCentresOf(F) \cup HaptoAttached(F)
                    inc  == {p \in (DOMAIN F.bonds) \X core : p[2] \in {F.bonds[p[1]].a, F.bonds[p[1]].b}} IN
                core \cup {Real(F, Other(F.bonds[p[1]], p[2]), 4) : p \in inc}

(* ---- clauses over (fragment F, result R) ---------------------------------- *)
AtomsAsDrawn(F, R) ==
  /\ DOMAIN R.atoms = AtomKeys(F) /\ R.natoms = Cardinality(AtomKeys(F))          \* one atom per drawn node
  /\ \A k \in AtomKeys(F) : LET n == F.nodes[k]  a == R.atoms[k] IN
       /\ (IsECP(n) \/ Generic(n) \/ a.el = DrawnElement(n))
       /\ a.iso = n.iso /\ a.q = n.q
       /\ (RadCount(n.rad) >= 0 => a.nrad = RadCount(n.rad))
AttachmentPointsWhereDrawn(F, R) ==
  \A k \in AtomKeys(F) \cap DOMAIN R.atoms : LET n == F.nodes[k] IN
       /\ (IsECP(n) => R.atoms[k].ap)
       /\ (~IsECP(n) /\ ~Generic(n) => ~R.atoms[k].ap)
BondsAsDrawn(F, R) ==
  /\ R.nbonds = Cardinality(DOMAIN R.bonds)
  /\ \A bk \in DrawnBondKeys(F) :                                                  \* one bond per drawn bond, drawn order
       /\ bk \in DOMAIN R.bonds
       /\ {R.bonds[bk].a, R.bonds[bk].b} = WantEnds(F, bk)
       /\ (F.bonds[bk].disp # "Dash" /\ OrderName(F.bonds[bk].ord) # "?" => R.bonds[bk].ord = OrderName(F.bonds[bk].ord))
  /\ \A bk \in DOMAIN R.bonds \ DrawnBondKeys(F) :                                 \* nothing else, except centre--attached atom
       \E c \in HaptoCentresOf(F), t \in HaptoAttached(F) : {R.bonds[bk].a, R.bonds[bk].b} = {c, t}
ChargeMultFollow(F, R) ==
  /\ R.charge = SumOver(DOMAIN R.atoms, [k \in DOMAIN R.atoms |-> R.atoms[k].q])
  /\ R.mult   = SumOver(DOMAIN R.atoms, [k \in DOMAIN R.atoms |-> R.atoms[k].nrad]) + 1
FragmentClauses == {"AtomsAsDrawn", "AttachmentPointsWhereDrawn", "BondsAsDrawn", "ChargeMultFollow"}
Holds(c, F, R) == CASE c = "AtomsAsDrawn" -> AtomsAsDrawn(F, R)
                    [] c = "AttachmentPointsWhereDrawn" -> AttachmentPointsWhereDrawn(F, R)
                    [] c = "BondsAsDrawn" -> BondsAsDrawn(F, R)
                    [] c = "ChargeMultFollow" -> ChargeMultFollow(F, R)

(* ---- label -> fragment ----------------------------------------------------- *)
IsLabel(t)      == t.ns = 1 /\ t.face = "1"                  \* molli's convention: one bold run of text
LabelTexts(D)   == {D.labels[i].text : i \in {j \in DOMAIN D.labels : IsLabel(D.labels[j])}}
LabelIdx(D, tx) == {i \in DOMAIN D.labels : IsLabel(D.labels[i]) /\ D.labels[i].text = tx}
ValidFrags(D)   == {f \in DOMAIN D.frags : D.frags[f].nb > 0}
Above(D, t)     == {f \in ValidFrags(D) : D.frags[f].y < t.y}             \* page y grows downwards
L1(F, t)        == Abs(F.x - t.x) + Abs(F.y - t.y)
Cx(v)           == v \div 20                                              \* 1/10 pt, so that squares fit 32 bits
D2(F, t)        == (Cx(F.x) - Cx(t.x)) * (Cx(F.x) - Cx(t.x)) + (Cx(F.y) - Cx(t.y)) * (Cx(F.y) - Cx(t.y))
NearestL1(D, t) == LET ab == Above(D, t) IN {f \in ab : \A g \in ab : L1(D.frags[f], t) <= L1(D.frags[g], t) + 4}
NearestL2(D, t) == LET ab == Above(D, t) IN {f \in ab : \A g \in ab :
                      D2(D.frags[f], t) <= D2(D.frags[g], t) + 4 * (Abs(Cx(D.frags[g].x) - Cx(t.x)) + Abs(Cx(D.frags[g].y) - Cx(t.y))) + 8}
Siblings(D, t)  == IF t.grp = "" THEN {} ELSE {f \in ValidFrags(D) : D.frags[f].grp = t.grp}
(* The property fixes no metric and no precedence between "grouped with" and "nearest above": all are allowed;      *)
(* what it demands is that the answer is one of them and never changes.                                              *)
Allowed(D, tx)  == UNION {Siblings(D, D.labels[i]) \cup NearestL1(D, D.labels[i]) \cup NearestL2(D, D.labels[i]) : i \in LabelIdx(D, tx)}

ResolvesAsDrawn(D, tx, R) == R.fid \in Allowed(D, tx)
ResolvesStably(m, tx, R)  == tx \in DOMAIN m => R.fid = m[tx].fid                                   \* same fragment on every look-up
Deterministic(m, tx, R)   == tx \in DOMAIN m /\ R.fid = m[tx].fid => R.cdig = m[tx].cdig /\ R.gdig = m[tx].gdig
Remember(m, tx, R) == IF tx \in DOMAIN m THEN m ELSE (tx :> [fid |-> R.fid, cdig |-> R.cdig, gdig |-> R.gdig]) @@ m

LookupClauses == FragmentClauses \cup {"ResolvesAsDrawn", "ResolvesStably", "Deterministic", "ParsesAtAll"}
(* which clauses a recorded look-up (D, m, tx, out, R) breaks *)
Broken(D, m, tx, out, R) ==
  IF out # "ok"
    THEN IF \E f \in Allowed(D, tx) : InScope(D.frags[f]) THEN {"ParsesAtAll"} ELSE {}
    ELSE IF ~ResolvesAsDrawn(D, tx, R) THEN {"ResolvesAsDrawn"} \cup (IF ResolvesStably(m, tx, R) THEN {} ELSE {"ResolvesStably"})
    ELSE (IF ResolvesStably(m, tx, R) THEN {} ELSE {"ResolvesStably"})
         \cup (IF Deterministic(m, tx, R) THEN {} ELSE {"Deterministic"})
         \cup (IF InScope(D.frags[R.fid]) THEN {c \in FragmentClauses : ~Holds(c, D.frags[R.fid], R)} ELSE {})
(* History independence is a statement about CONTENT: every look-up yields the drawing's content, whatever callers  *)
(* did to the molecules handed out before.  It is covered by the clauses above, because they are demanded of every    *)
(* look-up (also of those that follow a caller's edit).  Whether the returned object is a new one is NOT part of the  *)
(* property (a parser may share or copy as it likes, as long as no edit ever shows): DistinctObject is only a         *)
(* model-level fact about the reference parser (P_DistinctObject) and an informational counter in the evidence.       *)
DistinctObject(os, R) == R.oid \notin os
BrokenAll(D, m, os, tx, out, R) == Broken(D, m, tx, out, R)
Accepts(D, m, os, tx, out, R) == BrokenAll(D, m, os, tx, out, R) = {}

(* ---- relations between a file and a transformed copy ----------------------- *)
Km(km, k) == IF k \in DOMAIN km THEN km[k] ELSE k
BondSet(R, km) == {[e |-> {Km(km, R.bonds[bk].a), Km(km, R.bonds[bk].b)}, o |-> R.bonds[bk].ord] : bk \in DOMAIN R.bonds}
(* Rb: result on the base file, Rv: result on the variant, km: variant key -> base key *)
SameConstitution(Rb, Rv, km) ==
  /\ {Km(km, k) : k \in DOMAIN Rv.atoms} = DOMAIN Rb.atoms /\ Rv.natoms = Rb.natoms /\ Rv.nbonds = Rb.nbonds
  /\ \A k \in DOMAIN Rv.atoms : Km(km, k) \in DOMAIN Rb.atoms => Rv.atoms[k] = Rb.atoms[Km(km, k)]
  /\ BondSet(Rv, km) = BondSet(Rb, Empty)
  /\ Rv.charge = Rb.charge /\ Rv.mult = Rb.mult
(* handedness tokens: signed volumes in 1e-3 A^3; "non-planar" is decided on the pair (|v| > 50 in either model) *)
NonPlanar(p) == Abs(p.v0) > 50 \/ Abs(p.v1) > 50
Flipped(p)   == (p.v0 > 50 => p.v1 < 0) /\ (p.v0 < -50 => p.v1 > 0) /\ (p.v1 > 50 => p.v0 < 0) /\ (p.v1 < -50 => p.v0 > 0)
Kept(p)      == (p.v0 > 50 => p.v1 > 0) /\ (p.v0 < -50 => p.v1 < 0) /\ (p.v1 > 50 => p.v0 > 0) /\ (p.v1 < -50 => p.v0 < 0)
(* pairs: set of [cv (centre, variant key), v0 (base), v1 (variant)]; F: the variant's drawn fragment *)
MirrorFlipsHandedness(F, pairs) == \A p \in pairs : p.cv \notin HaptoZone(F) => Flipped(p)
HandednessKept(F, pairs)        == \A p \in pairs : p.cv \notin HaptoZone(F) => Kept(p)
RelationClauses == {"SameConstitution", "MirrorFlipsHandedness", "HandednessKept"}
BrokenRel(F, rel, Rb, Rv, km, pairs) ==
     (IF SameConstitution(Rb, Rv, km) THEN {} ELSE {"SameConstitution"})
     \cup (IF rel = "mirror" /\ ~MirrorFlipsHandedness(F, pairs) THEN {"MirrorFlipsHandedness"} ELSE {})
     \cup (IF rel = "same" /\ ~HandednessKept(F, pairs) THEN {"HandednessKept"} ELSE {})

(* ===================== Part 2: reference model of the parser ================ *)
(* In the model, nodes also carry chi \in {-1, 0, 1}: the sense of rotation of the drawn neighbours (a 2-D fact);  *)
(* the handedness token of a centre is chi * (sign of the stereo marks whose narrow end is at the centre) * 1000.  *)
ImplRad(r) == IF "RadicalTableSwapped" \in Deviations
                THEN (CASE r = "Doublet" -> 2 [] r = "Singlet" -> 1 [] OTHER -> 0)
                ELSE (CASE r = "Doublet" -> 1 [] r = "Singlet" -> 2 [] OTHER -> 0)
ImplAtom(n) == [el   |-> IF IsECP(n) \/ n.nt \in {"Unspecified", "GenericNickname", "Fragment", "Nickname"} THEN 0 ELSE DrawnElement(n),
                iso  |-> IF "IsotopeIgnored" \in Deviations THEN 0 ELSE n.iso,
                q    |-> IF "ChargeSignFlipped" \in Deviations THEN 0 - n.q ELSE n.q,
                nrad |-> ImplRad(n.rad),
                ap   |-> IF "APNotMarked" \in Deviations THEN FALSE ELSE IsECP(n) \/ Generic(n)]
ImplOrder(b) == IF b.disp = "Dash" \/ ("HashDisplayAsLigand" \in Deviations /\ b.disp \in {"Hash", "WedgedHashBegin", "WedgedHashEnd"})
                  THEN "Ligand"
                  ELSE IF b.ord = "1.5" THEN (IF "AromaticAsSingle" \in Deviations THEN "Single" ELSE "Aromatic")
                  ELSE OrderName(b.ord)
(* join of a nested fragment: the outer bond is re-attached to the neighbour of the inner connection point *)
InnerAtoms(F, p) == {k \in AtomKeys(F) : F.nodes[k].par = p}
ImplThrough(F, p) == IF "NestedBondToWrongAtom" \in Deviations /\ InnerAtoms(F, p) \ {Through(F, p)} # {}
                       THEN CHOOSE k \in InnerAtoms(F, p) \ {Through(F, p)} : TRUE ELSE Through(F, p)
ImplReal(F, k) == IF k \in DOMAIN F.nodes /\ F.nodes[k].inner THEN ImplThrough(F, k) ELSE k      \* one level, as in the bundled drawings
HaptoPairs(F) == {<<c, t>> \in HaptoCentresOf(F) \X HaptoAttached(F) : TRUE}
ImplBonds(F) == [bk \in DrawnBondKeys(F) |-> [a |-> ImplReal(F, F.bonds[bk].a), b |-> ImplReal(F, F.bonds[bk].b), ord |-> ImplOrder(F.bonds[bk])]]
                @@ [x \in {"+" \o p[1] \o "-" \o p[2] : p \in HaptoPairs(F)} |->
                      LET p == CHOOSE q \in HaptoPairs(F) : x = "+" \o q[1] \o "-" \o q[2] IN [a |-> p[1], b |-> p[2], ord |-> "Ligand"]]
MarkAt(F, bk, k) == LET b == F.bonds[bk]  d == b.disp IN
    CASE d = "WedgeBegin" /\ b.a = k -> 1 [] d = "WedgedHashBegin" /\ b.a = k -> -1
      [] d = "WedgeEnd" /\ b.b = k -> 1
      [] d = "WedgedHashEnd" /\ b.b = k -> (IF "HashEndAsWedgeEnd" \in Deviations THEN 1 ELSE -1)
      [] d = "Bold" -> 1 [] d = "Hash" -> -1 [] OTHER -> 0
Sgn(x) == IF x > 0 THEN 1 ELSE IF x < 0 THEN -1 ELSE 0
ImplHand(F) == [k \in {x \in AtomKeys(F) : F.nodes[x].chi # 0} |->
                  1000 * F.nodes[k].chi * Sgn(SumOver(BondsAt(F, k), [bk \in BondsAt(F, k) |-> MarkAt(F, bk, k)]))]
ImplParse(F, fid) ==
  LET atoms == [k \in AtomKeys(F) |-> ImplAtom(F.nodes[k])]
      bonds == ImplBonds(F)
      counted == IF "NestedChargeDropped" \in Deviations THEN {k \in AtomKeys(F) : F.nodes[k].par = ""} ELSE AtomKeys(F)
      q == SumOver(counted, [k \in counted |-> atoms[k].q])
      m == SumOver(counted, [k \in counted |-> atoms[k].nrad]) + 1
  IN [fid |-> fid, atoms |-> atoms, bonds |-> bonds, charge |-> q, mult |-> m,
      natoms |-> Cardinality(AtomKeys(F)), nbonds |-> Cardinality(DOMAIN bonds),
      cdig |-> <<atoms, bonds, q, m>>, gdig |-> ImplHand(F)]
MirrorF(F) == [F EXCEPT !.bonds = [bk \in DOMAIN F.bonds |-> [F.bonds[bk] EXCEPT !.disp = MirrorMark(F.bonds[bk].disp)]]]
HandPairs(R0, R1) == {[cv |-> k, v0 |-> R0.gdig[k], v1 |-> R1.gdig[k]] : k \in DOMAIN R0.gdig \cap DOMAIN R1.gdig}

(* __getitem__: cache, else grouped fragment, else nearest fragment above the label *)
FirstIdx(D, tx) == CHOOSE i \in LabelIdx(D, tx) : \A j \in LabelIdx(D, tx) : i <= j
ImplResolve(D, c, tx) ==
  IF tx \in DOMAIN c THEN c[tx]
  ELSE IF "StaleCacheHit" \in Deviations /\ DOMAIN c # {} THEN c[CHOOSE k \in DOMAIN c : TRUE]
  ELSE LET t == D.labels[FirstIdx(D, tx)] IN
       IF Siblings(D, t) # {} THEN CHOOSE f \in Siblings(D, t) : TRUE
       ELSE IF NearestL1(D, t) # {} THEN CHOOSE f \in NearestL1(D, t) : \A g \in NearestL1(D, t) : L1(D.frags[f], t) <= L1(D.frags[g], t)
       ELSE "none"

Init == /\ file \in DOMAIN Files /\ cache = Empty /\ memo = Empty /\ nlook = 0 /\ last = [act |-> "init"]
        /\ objs = {} /\ handed = Empty

WithOid(R, o) == ("oid" :> o) @@ R
Lookup(tx) ==
  /\ nlook < MaxLookups /\ nlook' = nlook + 1 /\ UNCHANGED file
  /\ LET D == Files[file]  f == ImplResolve(D, cache, tx) IN
     IF f = "none"
       THEN /\ UNCHANGED <<cache, memo, objs, handed>> /\ last' = [act |-> "lookup", label |-> tx, out |-> "KeyError"]
       ELSE LET fresh == WithOid(ImplParse(D.frags[f], f), nlook + 1)
                (* deviation: the parsed Molecule is memoised per label and the very same object is handed out again *)
                R  == IF "MemoisedMolecule" \in Deviations /\ tx \in DOMAIN handed THEN handed[tx] ELSE fresh
                Rm == ImplParse(MirrorF(D.frags[f]), f) IN
            /\ cache' = IF tx \in DOMAIN cache THEN cache ELSE (tx :> f) @@ cache
            /\ memo' = Remember(memo, tx, R)
            /\ objs' = objs \cup {R.oid}
            /\ handed' = (tx :> R) @@ handed
            /\ last' = [act |-> "lookup", label |-> tx, out |-> "ok", R |-> R, Rm |-> Rm]
(* the caller works on a molecule it was given (public calls: edit a formal charge, add a hydrogen, delete an atom,  *)
(* move the coordinates).  Nothing of this may show in any later look-up.                                            *)
Edited(R, how) ==
  LET k0 == CHOOSE k \in DOMAIN R.atoms : \A j \in DOMAIN R.atoms : R.atoms[k].el >= R.atoms[j].el
      at == CASE how = "charge" -> [R.atoms EXCEPT ![k0].q = @ + 1]
              [] how = "addH"   -> ("+H" :> [el |-> 1, iso |-> 0, q |-> 0, nrad |-> 0, ap |-> FALSE]) @@ R.atoms
              [] how = "delatom" -> [k \in DOMAIN R.atoms \ {k0} |-> R.atoms[k]]
              [] OTHER -> R.atoms
      bd == CASE how = "addH" -> ("+bH" :> [a |-> k0, b |-> "+H", ord |-> "Single"]) @@ R.bonds
              [] how = "delatom" -> [bk \in {x \in DOMAIN R.bonds : k0 \notin {R.bonds[x].a, R.bonds[x].b}} |-> R.bonds[bk]]
              [] OTHER -> R.bonds
      q  == IF how = "charge" THEN R.charge + 1 ELSE R.charge
      g  == IF how = "move" THEN [k \in DOMAIN R.gdig |-> 0 - R.gdig[k]] @@ ("moved" :> 1) ELSE R.gdig
  IN [R EXCEPT !.atoms = at, !.bonds = bd, !.charge = q, !.natoms = Cardinality(DOMAIN at), !.nbonds = Cardinality(DOMAIN bd),
               !.cdig = <<at, bd, q, R.mult>>, !.gdig = g]
Edits == {"charge", "addH", "delatom", "move"}
Mutate(tx, how) ==
  /\ nlook < MaxLookups /\ nlook' = nlook + 1 /\ tx \in DOMAIN handed
  /\ handed' = [handed EXCEPT ![tx] = Edited(@, how)]
  /\ UNCHANGED <<file, cache, memo, objs>> /\ last' = [act |-> "mutate", label |-> tx, how |-> how]
(* a second CDXMLFile object on the same path: empty caches; the label must still resolve as before *)
Reopen == /\ nlook < MaxLookups /\ DOMAIN cache # {} /\ cache' = Empty /\ handed' = Empty
          /\ UNCHANGED <<file, memo, nlook, objs>> /\ last' = [act |-> "reopen"]

AnyLookup == \E tx \in LabelTexts(Files[file]) : Lookup(tx)
AnyMutate == \E tx \in DOMAIN handed, how \in Edits : Mutate(tx, how)
Next == AnyLookup \/ AnyMutate \/ Reopen
Spec == Init /\ [][Next]_vars

(* ---- every look-up of the model is one that the property accepts ----------- *)
Looked  == last'.act = "lookup"
LookedOk == last'.act = "lookup" /\ last'.out = "ok"
DF      == Files[file].frags[last'.R.fid]
P_ParsesAtAll       == [][Looked => "ParsesAtAll" \notin Broken(Files[file], memo, last'.label, last'.out, IF last'.out = "ok" THEN last'.R ELSE last')]_vars
P_ResolvesAsDrawn   == [][LookedOk => ResolvesAsDrawn(Files[file], last'.label, last'.R)]_vars
P_ResolvesStably    == [][LookedOk => ResolvesStably(memo, last'.label, last'.R)]_vars
P_Deterministic     == [][LookedOk => Deterministic(memo, last'.label, last'.R)]_vars
P_AtomsAsDrawn      == [][LookedOk /\ ResolvesAsDrawn(Files[file], last'.label, last'.R) => AtomsAsDrawn(DF, last'.R)]_vars
P_AttachmentPoints  == [][LookedOk /\ ResolvesAsDrawn(Files[file], last'.label, last'.R) => AttachmentPointsWhereDrawn(DF, last'.R)]_vars
P_BondsAsDrawn      == [][LookedOk /\ ResolvesAsDrawn(Files[file], last'.label, last'.R) => BondsAsDrawn(DF, last'.R)]_vars
P_ChargeMultFollow  == [][LookedOk /\ ResolvesAsDrawn(Files[file], last'.label, last'.R) => ChargeMultFollow(DF, last'.R)]_vars
P_MirrorKeepsConstitution == [][LookedOk => SameConstitution(last'.R, last'.Rm, Empty)]_vars
P_MirrorFlipsHandedness   == [][LookedOk => MirrorFlipsHandedness(DF, HandPairs(last'.R, last'.Rm))]_vars
P_DistinctObject    == [][LookedOk => DistinctObject(objs, last'.R)]_vars
P_Accepts           == [][Looked => Accepts(Files[file], memo, objs, last'.label, last'.out, IF last'.out = "ok" THEN last'.R ELSE last')]_vars
=============================================================================
