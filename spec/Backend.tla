------------------------------ MODULE Backend ------------------------------
(* Collection layer of C02: Collection + UkvCollectionBackend over one UKV     *)
(* file (molli/storage/backends.py, collection.py).  Each collection object    *)
(* owns a write queue, a key set, a used-memory counter, a buffer size and a   *)
(* lazily created file handle that is re-opened at every session begin.        *)
(* Sessions of one process do not overlap (scope of C04), so a session begins  *)
(* only while every other collection object is idle.                           *)
EXTENDS Integers, Sequences, FiniteSets, TLC
CONSTANTS Key, Val, KeyLen, ValLen, Coll, RO, Buf,   \* RO : [Coll -> BOOLEAN], Buf : [Coll -> Int]
          Hdr, NoHdr, MaxRecs, Deviations
VARIABLES file,  \* [exists, hdr, recs : Seq([k, v])]
          cs,    \* [Coll -> [made, st, keys, queue, used, fmode, toc, n]]
          last
vars == <<file, cs, last>>
sv   == <<file, cs>>

KeysOf(recs)     == {recs[i].k : i \in 1..Len(recs)}
ValueOf(recs, k) == LET i == CHOOSE i \in 1..Len(recs) : recs[i].k = k IN recs[i].v
MapOf(recs)      == [k \in KeysOf(recs) |-> ValueOf(recs, k)]
QKeys(q)         == {q[i].k : i \in 1..Len(q)}
AllIdle          == \A c \in Coll : cs[c].st = "idle"

Init == /\ file = [exists |-> FALSE, hdr |-> NoHdr, recs |-> <<>>]
        /\ cs = [c \in Coll |-> [made |-> FALSE, st |-> "idle", keys |-> {}, queue |-> <<>>, used |-> 0,
                                 fmode |-> "none", toc |-> {}, n |-> 0]]
        /\ last = [act |-> "init", out |-> "ok"]

Note(a, o) == last' = a @@ [out |-> o]
Fail(a, o) == UNCHANGED sv /\ Note(a, o)

(* Collection(path, UkvCollectionBackend, readonly=RO[c], bufsize=Buf[c], comment/h1/b0 = hd) *)
Make(c, hd) ==
  LET a == [act |-> "make", c |-> c, hdr |-> hd] IN
  /\ ~cs[c].made /\ AllIdle
  /\ IF RO[c] /\ ~file.exists THEN Fail(a, "FileNotFoundError")
     ELSE /\ file' = IF file.exists THEN file ELSE [exists |-> TRUE, hdr |-> hd, recs |-> <<>>]
          /\ cs' = [cs EXCEPT ![c].made = TRUE]
          /\ Note(a, "ok")

(* begin_read/begin_write: (re)open the file handle; map_blocks with the cache shortcut; update_keys *)
Mapped(c) == IF cs[c].fmode # "none" /\ cs[c].n = Len(file.recs)
               THEN [toc |-> cs[c].toc, n |-> cs[c].n]
               ELSE [toc |-> cs[c].toc \cup KeysOf(file.recs), n |-> Len(file.recs)]

Begin(c, m) ==
  LET a == [act |-> IF m = "a" THEN "beginw" ELSE "beginr", c |-> c] IN
  /\ cs[c].made /\ AllIdle
  /\ IF m = "a" /\ RO[c] THEN Fail(a, "UnsupportedOperation")
     ELSE LET mp == Mapped(c) IN
          /\ cs' = [cs EXCEPT ![c].fmode = m, ![c].toc = mp.toc, ![c].n = mp.n, ![c].keys = mp.toc,
                              ![c].st = IF m = "a" THEN "writing" ELSE "reading"]
          /\ UNCHANGED file /\ Note(a, "ok")

(* flush(): every queued item is appended to the file (duplicates were refused at put time) *)
FlushRecs(q, recs) == recs \o q

(* collection[k] = v inside a session *)
CPut(c, k, v) ==
  LET a == [act |-> "cput", c |-> c, k |-> k, v |-> v] IN
  /\ cs[c].made
  /\ \/ cs[c].st = "writing"
     \/ cs[c].st = "reading" /\ RO[c]
  /\ IF RO[c] THEN Fail(a, "OSError")
     ELSE IF KeyLen[k] > 255 THEN
            IF "PhantomKey" \in Deviations
              THEN /\ cs' = [cs EXCEPT ![c].keys = @ \cup {k}] /\ UNCHANGED file /\ Note(a, "ValueError")
              ELSE Fail(a, "ValueError")
     ELSE IF k \in cs[c].keys /\ "LateDuplicate" \notin Deviations THEN Fail(a, "KeyError")
     ELSE /\ Len(file.recs) + Len(cs[c].queue) < MaxRecs
          /\ LET q  == Append(cs[c].queue, [k |-> k, v |-> v])
                 u  == cs[c].used + KeyLen[k] + ValLen[v]
             IN IF u > Buf[c]
                  THEN /\ file' = [file EXCEPT !.recs = FlushRecs(q, @)]
                       /\ cs' = [cs EXCEPT ![c].queue = <<>>, ![c].toc = @ \cup QKeys(q), ![c].n = Len(file.recs) + Len(q),
                                           ![c].keys = @ \cup {k}, ![c].used = 0]
                       /\ Note(a, "ok")
                  ELSE /\ cs' = [cs EXCEPT ![c].queue = q, ![c].keys = @ \cup {k}, ![c].used = u]
                       /\ UNCHANGED file /\ Note(a, "ok")

Readable(c, k) == \/ k \in QKeys(cs[c].queue) /\ "QueueNotReadable" \notin Deviations
                  \/ k \in cs[c].toc
Lookup(c, k) == IF k \in QKeys(cs[c].queue) /\ "QueueNotReadable" \notin Deviations
                  THEN LET i == CHOOSE i \in 1..Len(cs[c].queue) :
                                   cs[c].queue[i].k = k /\ \A j \in 1..(i-1) : cs[c].queue[j].k # k
                       IN cs[c].queue[i].v
                  ELSE ValueOf(file.recs, k)

CGet(c, k) ==
  LET a == [act |-> "cget", c |-> c, k |-> k] IN
  /\ cs[c].made /\ cs[c].st # "idle"
  /\ IF Readable(c, k) THEN UNCHANGED sv /\ last' = a @@ [out |-> "ok", val |-> Lookup(c, k)]
     ELSE Fail(a, "KeyError")

(* collection.flush() inside a session: everything queued is appended now (nothing to do for a reader) *)
CFlush(c) ==
  LET a == [act |-> "cflush", c |-> c] IN
  /\ cs[c].made /\ cs[c].st # "idle"
  /\ file' = [file EXCEPT !.recs = FlushRecs(cs[c].queue, @)]
  /\ cs' = [cs EXCEPT ![c].queue = <<>>, ![c].toc = @ \cup QKeys(cs[c].queue), ![c].n = Len(file.recs) + Len(cs[c].queue),
                      ![c].used = 0]
  /\ Note(a, "ok")

(* leaving the session - normally ("end") or with an exception of the caller propagating out of the `with` block ("endexc"): *)
(* either way a writing session flushes what it has queued, the file is closed and the lock released                       *)
EndAs(c, how) ==
  LET a == [act |-> how, c |-> c] IN
  /\ cs[c].st # "idle"
  /\ IF cs[c].st = "reading"
       THEN /\ cs' = [cs EXCEPT ![c].st = "idle", ![c].fmode = "closed"] /\ UNCHANGED file /\ Note(a, "ok")
       ELSE /\ file' = [file EXCEPT !.recs = FlushRecs(cs[c].queue, @)]
            /\ cs' = [cs EXCEPT ![c].st = "idle", ![c].fmode = "closed", ![c].queue = <<>>,
                                ![c].toc = @ \cup QKeys(cs[c].queue), ![c].n = Len(file.recs) + Len(cs[c].queue),
                                ![c].used = 0]
            /\ Note(a, "ok")

End(c) == EndAs(c, "end")
EndExc(c) == EndAs(c, "endexc")

Next == \E c \in Coll :
          \/ \E hd \in Hdr : Make(c, hd)
          \/ Begin(c, "a") \/ Begin(c, "r") \/ End(c) \/ EndExc(c) \/ CFlush(c)
          \/ \E k \in Key : CGet(c, k) \/ \E v \in Val : CPut(c, k, v)

Spec == Init /\ [][Next]_vars

---------------------------------------------------------------------------
CObs(c) == [made |-> cs[c].made, st |-> cs[c].st,
            keys |-> IF cs[c].st = "idle" THEN {} ELSE cs[c].keys,
            gets |-> IF cs[c].st = "idle" THEN <<>>
                     ELSE [k \in {x \in cs[c].keys : Readable(c, x)} |-> Lookup(c, k)]]
Obs == [exists |-> file.exists, hdr |-> file.hdr,
        recs |-> {<<file.recs[i].k, file.recs[i].v>> : i \in 1..Len(file.recs)},
        c |-> [c \in Coll |-> CObs(c)]]

(* ----- properties ---------------------------------------------------------- *)
NoDuplicateRecord == \A i, j \in 1..Len(file.recs) : file.recs[i].k = file.recs[j].k => i = j
KeyLenOK          == \A i \in 1..Len(file.recs) : KeyLen[file.recs[i].k] <= 255
ListedIsReadable  == \A c \in Coll : cs[c].st = "writing" => \A k \in cs[c].keys : Readable(c, k)
ListedIsPut       == \A c \in Coll : cs[c].st # "idle" =>
                        cs[c].keys \subseteq (KeysOf(file.recs) \cup QKeys(cs[c].queue))
SessionSeesAll    == \A c \in Coll : cs[c].st # "idle" => KeysOf(file.recs) \subseteq cs[c].keys
ClosedWhenIdle    == \A c \in Coll : cs[c].st = "idle" => cs[c].fmode \in {"none", "closed"}
FailedOpIsNoOp    == [][last'.out # "ok" => sv' = sv]_vars
FirstValueStays   == [][\A c \in Coll, k \in Key : (cs[c].st # "idle" /\ cs'[c].st # "idle" /\ Readable(c, k)) =>
                          (Readable(c, k)' /\ Lookup(c, k)' = Lookup(c, k))]_vars
HeadersPreserved  == [][file.exists => file'.exists /\ file'.hdr = file.hdr]_vars
RecordsImmutable  == [][\A i \in 1..Len(file.recs) : i <= Len(file'.recs) /\ file'.recs[i] = file.recs[i]]_vars
KV == INSTANCE KVMap WITH store <- [exists |-> file.exists, hdr |-> file.hdr, map |-> MapOf(file.recs)], dummy <- 0,
                         AllowClear <- FALSE
(* several records may reach the file in one flush: the map is insert-only, step-wise refinement holds per record *)
InsertOnly == [][\A k \in KeysOf(file.recs) : k \in KeysOf(file'.recs) /\ MapOf(file'.recs)[k] = MapOf(file.recs)[k]]_vars
=============================================================================
