-------------------------------- MODULE HAdd --------------------------------
(* C16: Structure.add_implicit_hydrogens() only completes valences.            *)
(*                                                                             *)
(* A molecule is a sequence of atoms and a sequence of bonds (1-based atom     *)
(* indices).  Coordinates and partial charges are opaque values in the atom    *)
(* record (`pos`, `q`): the specification only demands that those of existing  *)
(* atoms stay what they were.  `hints[i]` is the drawing hint of atom i (-1 =  *)
(* none), `off[i]` the measured distance (mA) between atom i and the centroid  *)
(* of its neighbours (for three neighbours: between atom i and their plane) -  *)
(* the only geometric input; it tells a well-defined "away" direction from a   *)
(* degenerate (flat / collinear) one.                                          *)
(*                                                                             *)
(* Actions = public calls: Load (build a molecule), Query (the neighbour /     *)
(* valence accessors bonds_with_atom, connected_atoms, bonded_valence,         *)
(* n_bonds_with_atom: no effect, answers follow the CURRENT bonds), Rewire     *)
(* (a bond deleted and another appended: an edit that keeps the number of      *)
(* bonds), Edited (any other public edit: the molecule is taken as it now is), *)
(* AddH (one call of add_implicit_hydrogens() on all atoms): a molecule has a  *)
(* HISTORY, and AddH must answer for the graph as it is when it is called.     *)
(* `seen` records that some accessor was used since the last edit (an          *)
(* implementation may cache what it computed then; the replay visits every     *)
(* edit from seen and from unseen states); `memo` = the bonds as they were     *)
(* then (bookkeeping; only deviation StaleAdjacency reads it: an atom->bonds   *)
(* table revalidated by the NUMBER of bonds only).  Share = some of the atom   *)
(* OBJECTS are handed to another container that does not copy them             *)
(* (Promolecule / Connectivity / Structure(atoms)): nothing the property talks *)
(* about changes, `shared` only records that it happened (back-references of   *)
(* the atoms may point elsewhere now), so that every later action is visited   *)
(* from shared and from unshared states.  AddH is parameterised by what was  *)
(* MEASURED on the hydrogens that appeared (`hs`): bonded centre, distance to  *)
(* it (uA), finiteness, 1000*cos of the angle between centre->H and            *)
(* centre->centroid(existing neighbours), type of the new bond, atom record.   *)
(* With Deviations = {} the action admits exactly what the property allows.    *)
(* Each named deviation admits one realistic wrong behaviour instead; the      *)
(* properties at the end (one per clause of C16) must then be violated.        *)
EXTENDS Integers, Sequences, FiniteSets, TLC
CONSTANTS Envs,         \* local environments offered to Build (model checking / case table)
          Deviations,
          TolD,         \* uA : |H-centre| may differ from the sum of covalent radii by at most this
          CosAway,      \* 1e-3: "pointing away" = 1000*cos <= -CosAway ; "towards" = 1000*cos >= CosAway
          OffMin,       \* mA : neighbours' centroid (plane) closer to the atom than this = degenerate geometry
          AllowEdit     \* BOOLEAN: Query / Rewire part of Next (model checking of histories on a small table)
VARIABLES atoms, hints, off, bonds, phase, seen, memo, shared, last
vars == <<atoms, hints, off, bonds, phase, seen, memo, shared, last>>
sv   == <<atoms, hints, off, bonds, phase, seen, memo, shared>>

Abs(x)    == IF x < 0 THEN -x ELSE x
Max(a, b) == IF a > b THEN a ELSE b

(* ----- chemistry tables (transcribed from the periodic table / Pyykko single-bond radii, not from molli) *)
Group(el) == CASE el \in {"B", "Al", "Ga", "In", "Tl"} -> 13
               [] el \in {"C", "Si", "Ge", "Sn", "Pb"} -> 14
               [] el \in {"N", "P", "As", "Sb", "Bi"}  -> 15
               [] el \in {"O", "S", "Se", "Te", "Po"}  -> 16
               [] OTHER -> 0
ValenceElectrons(el) == Group(el) - 10
RcovT == [H |-> 320000, B |-> 850000, Al |-> 1260000, Ga |-> 1240000, In |-> 1420000, Tl |-> 1440000,
          C |-> 750000, Si |-> 1160000, Ge |-> 1210000, Sn |-> 1400000, Pb |-> 1440000,
          N |-> 710000, P |-> 1110000, As |-> 1210000, Sb |-> 1400000, Bi |-> 1510000,
          O |-> 630000, S |-> 1030000, Se |-> 1160000, Te |-> 1360000, Po |-> 1450000]
BondLen(el) == RcovT[el] + RcovT["H"]                               \* uA
(* twice the bond order (Bond.order): aromatic = 1.5; dummy / ligand / not-connected / H-acceptor = 0 *)
Order2(bt) == CASE bt = "Single" -> 2 [] bt = "Double" -> 4 [] bt = "Triple" -> 6 [] bt = "Quadruple" -> 8
                [] bt = "Quintuple" -> 10 [] bt = "Sextuple" -> 12 [] bt = "Aromatic" -> 3
                [] bt \in {"Unknown", "Dummy", "NotConnected", "Ligand", "H_Acceptor"} -> 0
                [] OTHER -> 2

(* ----- graph helpers over an explicit molecule (as, bs) *)
Touches(b, i)  == b.a = i \/ b.b = i
Other(b, i)    == IF b.a = i THEN b.b ELSE b.a
BondsAt(bs, i) == {k \in DOMAIN bs : Touches(bs[k], i)}
NNbr(bs, i)    == Cardinality(BondsAt(bs, i))
RECURSIVE SumOrd2(_, _, _)
SumOrd2(bs, i, k) == IF k > Len(bs) THEN 0
                     ELSE (IF Touches(bs[k], i) THEN Order2(bs[k].bt) ELSE 0) + SumOrd2(bs, i, k + 1)
CeilValence(bs, i) == (SumOrd2(bs, i, 1) + 1) \div 2               \* ceil(bonded valence)
FloorValence(bs, i) == SumOrd2(bs, i, 1) \div 2
IsCentre(as, i) == Group(as[i].el) \in 13..16
Hapto(as, bs, i) == \E k \in BondsAt(bs, i) : as[Other(bs[k], i)].ty = "cc"   \* outside the claims (DESIGN 3.4)

(* ----- the count rule of the property *)
Formula(as, bs, i) ==
  Max(0, 4 - Abs(4 - (ValenceElectrons(as[i].el) - as[i].fc - Abs(as[i].sp))) - CeilValence(bs, i))
Count(as, hs, bs, i) ==
  IF ~IsCentre(as, i) THEN 0 ELSE IF hs[i] >= 0 THEN hs[i] ELSE Formula(as, bs, i)

(* what the (possibly deviant) implementation adds *)
CountImpl(i) ==
  LET a == atoms[i]
      e == ValenceElectrons(a.el) - (IF "ChargeSign" \in Deviations THEN -a.fc ELSE a.fc)
                                  - (IF "SpinIgnored" \in Deviations THEN 0 ELSE Abs(a.sp))
      bs == IF "StaleAdjacency" \in Deviations /\ seen /\ Len(memo) = Len(bonds) THEN memo ELSE bonds
      b == IF "FloorValence" \in Deviations THEN FloorValence(bs, i) ELSE CeilValence(bs, i)
      f == Max(0, (IF "OffByOne" \in Deviations THEN 3 ELSE 4) - Abs(4 - e) - b)
      n == IF hints[i] >= 0 /\ "HintIgnored" \notin Deviations THEN hints[i] ELSE f
  IN IF ~IsCentre(atoms, i) THEN 0
     ELSE IF n = 4 /\ "NoFourH" \in Deviations THEN 0 ELSE n
RECURSIVE Expand(_)
Expand(i) == IF i > Len(atoms) THEN <<>> ELSE [k \in 1..CountImpl(i) |-> i] \o Expand(i + 1)
Centres == Expand(1)            \* centre of the 1st, 2nd, ... new hydrogen (hydrogens grouped by centre, centres ascending)

(* ----- placement clause, judged on measured integers, in the state BEFORE the call *)
Degenerate(i) == off[i] < OffMin
PlacedOK(i, h) ==
  /\ h.fin
  /\ Abs(h.d - BondLen(atoms[i].el)) <= TolD
  /\ (NNbr(bonds, i) > 0 /\ ~Hapto(atoms, bonds, i)) =>
        IF Degenerate(i) THEN h.cos < CosAway            \* no defined centroid direction: anything but "towards"
                         ELSE h.cos <= -CosAway
Admitted(i, h) ==
  IF Deviations \cap {"TowardNeighbours", "NaNWhenIsolated", "WrongLength"} = {} THEN PlacedOK(i, h)
  ELSE /\ h.fin = ~("NaNWhenIsolated" \in Deviations /\ NNbr(bonds, i) = 0)
       /\ h.d = BondLen(atoms[i].el) + (IF "WrongLength" \in Deviations THEN 10 * TolD ELSE 0)
       /\ NNbr(bonds, i) > 0 => h.cos = (IF "TowardNeighbours" \in Deviations THEN 1000 ELSE -1000)
BondAdmitted(bt) == IF "HBondOrderZero" \in Deviations THEN bt = "Dummy" ELSE Order2(bt) = 2

Init == /\ atoms = <<>> /\ hints = <<>> /\ off = <<>> /\ bonds = <<>> /\ phase = "empty" /\ seen = FALSE
        /\ memo = <<>> /\ shared = FALSE /\ last = [act |-> "init"]

Load(as, hs, of, bs) ==
  /\ phase = "empty"
  /\ Len(hs) = Len(as) /\ Len(of) = Len(as)
  /\ \A k \in DOMAIN bs : bs[k].a \in DOMAIN as /\ bs[k].b \in DOMAIN as
  /\ atoms' = as /\ hints' = hs /\ off' = of /\ bonds' = bs /\ phase' = "built" /\ seen' = FALSE /\ memo' = <<>>
  /\ shared' = FALSE

(* the molecule was changed through other public calls (del_atom, new_atom, connect, remove_substituent, a bond's *)
(* a1/a2 re-pointed, ...): what those do is not C16's business, HAdd takes the graph as it now is                 *)
Edited(as, hs, of, bs) ==
  /\ phase # "empty"
  /\ Len(hs) = Len(as) /\ Len(of) = Len(as)
  /\ \A k \in DOMAIN bs : bs[k].a \in DOMAIN as /\ bs[k].b \in DOMAIN as
  /\ atoms' = as /\ hints' = hs /\ off' = of /\ bonds' = bs /\ phase' = "built" /\ seen' = FALSE /\ memo' = <<>>
  /\ UNCHANGED shared

(* the atom objects in S are also listed in another, non-copying container (kept alive or dropped at once) *)
Share(S, kind, keep) ==
  /\ phase # "empty" /\ S # {} /\ S \subseteq DOMAIN atoms
  /\ shared' = TRUE /\ UNCHANGED <<atoms, hints, off, bonds, phase, seen, memo>>
  /\ last' = [act |-> "share", out |-> "ok", sub |-> S, kind |-> kind, keep |-> keep]

(* neighbour / valence accessors: answers from the current bonds, nothing changes *)
NbrSet(bs, i) == {Other(bs[k], i) : k \in BondsAt(bs, i)}
Query(i) ==
  /\ phase # "empty" /\ i \in DOMAIN atoms
  /\ seen' = TRUE /\ memo' = (IF seen THEN memo ELSE bonds) /\ UNCHANGED <<atoms, hints, off, bonds, phase, shared>>
  /\ last' = [act |-> "query", out |-> "ok", i |-> i, nb |-> NbrSet(bonds, i), n |-> NNbr(bonds, i), bv2 |-> SumOrd2(bonds, i, 1)]

(* bond k taken off atom `from` and put on atom j instead: del_bond + connect.  The number of bonds stays. *)
RemoveAt(s, k) == SubSeq(s, 1, k - 1) \o SubSeq(s, k + 1, Len(s))
Rewire(k, j) ==
  /\ phase = "built" /\ k \in DOMAIN bonds /\ j \in DOMAIN atoms
  /\ j # bonds[k].a /\ j # bonds[k].b
  /\ ~\E m \in DOMAIN bonds : Touches(bonds[m], j) /\ Touches(bonds[m], bonds[k].b)      \* no double bond record
  /\ bonds' = RemoveAt(bonds, k) \o <<[a |-> j, b |-> bonds[k].b, bt |-> bonds[k].bt]>>
  /\ phase' = "edited" /\ UNCHANGED <<atoms, hints, off, seen, memo, shared>>
  /\ last' = [act |-> "rewire", out |-> "ok", k |-> k, j |-> j]

(* one local environment of the case table: a centre with 0..3 neighbours *)
EnvAtom(el, fc, sp, i) == [el |-> el, fc |-> fc, sp |-> sp, ty |-> "reg", pos |-> i, q |-> i]
Build(e) ==
  /\ Load(<<EnvAtom(e.c, e.fc, e.sp, 1)>> \o [k \in DOMAIN e.nb |-> EnvAtom(e.nb[k].el, 0, 0, k + 1)],
          <<e.hint>> \o [k \in DOMAIN e.nb |-> -1],
          <<IF e.nb = <<>> THEN 0 ELSE 10 * OffMin>> \o [k \in DOMAIN e.nb |-> 10 * OffMin],
          [k \in DOMAIN e.nb |-> [a |-> 1, b |-> k + 1, bt |-> e.nb[k].bt]])
  /\ last' = [act |-> "build", env |-> e]

NoHints == \A i \in DOMAIN hints : hints[i] < 0
Class(i, h) == [c   |-> i,
                len |-> IF Abs(h.d - BondLen(atoms[i].el)) <= TolD THEN "cov" ELSE "off",
                fin |-> h.fin,
                dir |-> IF NNbr(bonds, i) = 0 THEN "free" ELSE IF h.cos <= -CosAway THEN "away"
                        ELSE IF h.cos >= CosAway THEN "toward" ELSE "perp"]

AddH(hs) ==
  /\ phase \in {"built", "edited", "called"}
  /\ phase = "called" => NoHints           \* the property says nothing about a second call on a hinted drawing
  /\ LET cs == Centres
         n0 == Len(atoms)
         nb == [k \in DOMAIN hs |-> [a |-> cs[k], b |-> n0 + k, bt |-> hs[k].bt]]
     IN /\ Len(hs) = Len(cs)
        /\ \A k \in DOMAIN hs : /\ hs[k].c = cs[k]
                                /\ hs[k].atom.el = "H"
                                /\ Admitted(cs[k], hs[k])
                                /\ BondAdmitted(hs[k].bt)
        /\ atoms' = (IF "ShiftsCoords" \in Deviations /\ hs # <<>>
                       THEN [j \in DOMAIN atoms |-> [atoms[j] EXCEPT !.pos = 0]] ELSE atoms)
                    \o [k \in DOMAIN hs |-> hs[k].atom]
                    \o (IF "ReadoptsShared" \in Deviations /\ shared /\ hs # <<>>      \* a shared atom taken for foreign
                          THEN <<[atoms[cs[1]] EXCEPT !.pos = 0]>> ELSE <<>>)
        /\ bonds' = bonds \o nb \o (IF "HBondedTwice" \in Deviations /\ hs # <<>> /\ n0 > 1
                                      THEN <<[a |-> (cs[1] % n0) + 1, b |-> n0 + 1, bt |-> "Single"]>> ELSE <<>>)
        /\ hints' = hints \o [k \in DOMAIN hs |-> -1]
                    \o (IF "ReadoptsShared" \in Deviations /\ shared /\ hs # <<>> THEN <<-1>> ELSE <<>>)
        /\ off' = off \o [k \in DOMAIN hs |-> 0]
                    \o (IF "ReadoptsShared" \in Deviations /\ shared /\ hs # <<>> THEN <<0>> ELSE <<>>)
        /\ seen' = TRUE /\ memo' = bonds' /\ UNCHANGED shared                  \* the call itself looks at neighbours
        /\ last' = [act |-> "addh", out |-> "ok", n |-> Len(hs), hs |-> hs, cls |-> [k \in DOMAIN hs |-> Class(cs[k], hs[k])]]
  /\ phase' = "called"

(* the placement the model itself produces (model checking): ideal unless a deviation says otherwise *)
NewH == [el |-> "H", fc |-> 0, sp |-> 0, ty |-> "reg", pos |-> 0, q |-> 0]
ModelPlacement ==
  LET cs == Centres IN
  [k \in DOMAIN cs |->
     [c |-> cs[k], atom |-> NewH,
      bt  |-> IF "HBondOrderZero" \in Deviations THEN "Dummy" ELSE "Single",
      fin |-> ~("NaNWhenIsolated" \in Deviations /\ NNbr(bonds, cs[k]) = 0),
      d   |-> BondLen(atoms[cs[k]].el) + (IF "WrongLength" \in Deviations THEN 10 * TolD ELSE 0),
      cos |-> IF NNbr(bonds, cs[k]) = 0 THEN 0 ELSE IF "TowardNeighbours" \in Deviations THEN 1000 ELSE -1000]]

MQuery(i)     == AllowEdit /\ phase \in {"built", "edited"} /\ ~shared /\ Query(i)       \* histories before the calls (small table)
MRewire(k, j) == AllowEdit /\ Rewire(k, j)
CentreSet == {i \in DOMAIN atoms : IsCentre(atoms, i)}
MShare(m)     == /\ AllowEdit /\ phase = "built" /\ ~seen /\ ~shared          \* other interleavings: random histories
                 /\ Share(IF m.sub = "all" THEN DOMAIN atoms ELSE CentreSet, m.kind, m.keep)
ShareModes == {[sub |-> "all", kind |-> "Promolecule", keep |-> FALSE], [sub |-> "centres", kind |-> "Promolecule", keep |-> TRUE],
               [sub |-> "all", kind |-> "Connectivity", keep |-> TRUE], [sub |-> "centres", kind |-> "Structure", keep |-> FALSE]}
Next == \/ \E e \in Envs : Build(e)
        \/ AddH(ModelPlacement)
        \/ \E i \in DOMAIN atoms : MQuery(i)
        \/ \E k \in DOMAIN bonds, j \in DOMAIN atoms : MRewire(k, j)
        \/ \E m \in ShareModes : MShare(m)
Spec == Init /\ [][Next]_vars

(* ----- the clauses of C16 --------------------------------------------------------------------- *)
IsCall == last'.act = "addh"
NewIdx == (Len(atoms) + 1)..Len(atoms')
NewBnd == (Len(bonds) + 1)..Len(bonds')

(* adds hydrogen atoms and nothing else: existing atoms (with coordinates and charges) and bonds unchanged *)
OnlyHydrogensAdded ==
  [][IsCall => /\ Len(atoms') >= Len(atoms) /\ SubSeq(atoms', 1, Len(atoms)) = atoms
               /\ Len(bonds') >= Len(bonds) /\ SubSeq(bonds', 1, Len(bonds)) = bonds
               /\ \A j \in NewIdx : atoms'[j].el = "H"
               /\ \A k \in NewBnd : bonds'[k].a \in NewIdx \/ bonds'[k].b \in NewIdx]_vars
(* each atom receives exactly the number the hint states / the formula gives; other atoms none *)
CountRule ==
  [][IsCall => \A i \in DOMAIN atoms :
        Cardinality({k \in NewBnd : Touches(bonds'[k], i)}) = Count(atoms, hints, bonds, i)]_vars
(* every new hydrogen is bonded once, to an existing atom that was due hydrogens *)
BondedOnceToCentre ==
  [][IsCall => \A j \in NewIdx : \E k \in NewBnd :
        /\ BondsAt(bonds', j) = {k}
        /\ Other(bonds'[k], j) \in DOMAIN atoms
        /\ Count(atoms, hints, bonds, Other(bonds'[k], j)) > 0]_vars
(* at the sum of covalent radii, finite, pointing away from the centroid of the existing neighbours *)
PlacedRight ==
  [][IsCall => \A k \in DOMAIN last'.hs :
        /\ last'.hs[k].c \in DOMAIN atoms
        /\ PlacedOK(last'.hs[k].c, last'.hs[k])]_vars
(* on hint-free molecules a second call adds nothing *)
Idempotent == [][(IsCall /\ phase = "called") => (atoms' = atoms /\ bonds' = bonds)]_vars
ValenceComplete == (phase = "called" /\ NoHints) =>
                      \A i \in DOMAIN atoms : Count(atoms, hints, bonds, i) = 0
(* the accessors answer for the present bonds (graph-theoretic definition) *)
QueryRight ==
  [][last'.act = "query" =>
        /\ last'.nb = {j \in DOMAIN atoms : \E k \in DOMAIN bonds : Touches(bonds[k], last'.i) /\ Other(bonds[k], last'.i) = j}
        /\ last'.n = Cardinality({k \in DOMAIN bonds : Touches(bonds[k], last'.i)})]_vars
TypeOK == /\ phase \in {"empty", "built", "edited", "called"} /\ seen \in BOOLEAN /\ shared \in BOOLEAN
          /\ Len(hints) = Len(atoms) /\ Len(off) = Len(atoms)
          /\ \A k \in DOMAIN bonds : bonds[k].a \in DOMAIN atoms /\ bonds[k].b \in DOMAIN atoms
=============================================================================
