------------------------------- MODULE MolEdit -------------------------------
(* C05: edit histories of one Molecule / Structure.                           *)
(* Atoms have identity (AtomId); element and label are fixed per identity.    *)
(* `coord[a]` / `chg[a]` say which coordinate / charge the atom currently has, *)
(* keyed by identity: [base |-> id whose given coordinate it is, sh |-> 0/1    *)
(* (translated by the substructure action)], "nan" (adopted without a         *)
(* coordinate) or "any" (placed by the library, not constrained here).        *)
(* Bonds are unordered pairs of live atoms (their order in the bond list is    *)
(* not part of the property); `dbl` holds the pairs that are joined by a       *)
(* SECOND, parallel bond object (connect twice, append_bond of the reversed    *)
(* pair) - at most MaxPar pairs at a time.  One action per public editing call.*)
EXTENDS Naturals, Sequences, FiniteSets, TLC
CONSTANTS AtomId,      \* identities the harness can create
          Fresh,       \* identities for hydrogens created inside the library (sequence: used in order)
          FreshAP,     \* identities for attachment points created by remove_substituent
          ElemOf, LabelOf, Valence,   \* per identity / per element
          QGiven,      \* identities whose add_atom call passes a charge
          MaxLive, MaxView, MaxPar, WithNew, HasCharges, Deviations
VARIABLES atoms,    \* Seq(identity): the atom list
          bonds,    \* set of {x, y}
          dbl,      \* subset of bonds: pairs with two bond objects
          coord,    \* [identity -> token]   (meaningful for live atoms)
          chg,      \* [identity -> token]
          nfresh,   \* fresh hydrogen identities consumed
          nap,      \* fresh attachment-point identities consumed
          view,     \* identities selected by a Substructure view object that is being held across edits ({} = none)
          last
vars == <<atoms, bonds, dbl, coord, chg, nfresh, nap, view, last>>
sv == <<atoms, bonds, dbl, coord, chg, nfresh, nap, view>>
ev == <<atoms, bonds, dbl, coord, chg, nfresh, nap>>     \* what an edit call may change
AllId == AtomId \cup {Fresh[i] : i \in 1..Len(Fresh)} \cup {FreshAP[i] : i \in 1..Len(FreshAP)}
Live == {atoms[i] : i \in 1..Len(atoms)}
Pos(a) == CHOOSE i \in 1..Len(atoms) : atoms[i] = a
None == "none"
Given(a) == [base |-> a, sh |-> 0]
NanC  == [base |-> "nan", sh |-> 0]
AnyC  == [base |-> "any", sh |-> 0]
NoneC == [base |-> "none", sh |-> 0]

Init == /\ atoms = <<>> /\ bonds = {} /\ dbl = {} /\ nfresh = 0 /\ nap = 0 /\ view = {}
        /\ coord = [a \in AllId |-> NoneC] /\ chg = [a \in AllId |-> None]
        /\ last = [act |-> "init", out |-> "ok"]

NoteV(a, o) == last' = a @@ [out |-> o]
(* every ordinary edit call leaves a held view object alone; a clone leaves it behind with the old molecule *)
Note(a, o) == NoteV(a, o) /\ view' = IF a.act = "clone" THEN {} ELSE view
Fail(a) == UNCHANGED ev /\ Note(a, "error")
Remove(s, a) == SelectSeq(s, LAMBDA x : x # a)
Touching(a) == {b \in bonds : a \in b}

(* mol.add_atom(atom, coord[, charge]) *)
AddAtom(a, withq) ==
  /\ a \in AtomId \ Live /\ Len(atoms) < MaxLive
  /\ atoms' = Append(atoms, a) /\ coord' = [coord EXCEPT ![a] = Given(a)]
  /\ chg' = [chg EXCEPT ![a] = IF withq THEN "q" ELSE IF "NoneCharge" \in Deviations THEN "nonnumeric" ELSE "zero"]
  /\ UNCHANGED <<bonds, dbl, nfresh, nap>>
  /\ Note([act |-> "add_atom", a |-> a, q |-> withq], "ok")

(* mol.new_atom(element, coord=..., label=...): the atom object is created inside the library and added with its coordinate *)
NewAtom(a) ==
  /\ WithNew /\ a \in AtomId \ Live /\ Len(atoms) < MaxLive
  /\ atoms' = Append(atoms, a) /\ coord' = [coord EXCEPT ![a] = Given(a)]
  /\ chg' = [chg EXCEPT ![a] = IF "NoneCharge" \in Deviations THEN "nonnumeric" ELSE "zero"]
  /\ UNCHANGED <<bonds, dbl, nfresh, nap>>
  \* a NEW atom object now stands for identity a: a view that was made of the old, deleted object is of no use any more
  /\ NoteV([act |-> "new_atom", a |-> a], "ok") /\ view' = IF a \in view THEN {} ELSE view

(* mol.append_atom(atom): adoption without a coordinate *)
AppendAtom(a) ==
  /\ a \in AtomId \ Live /\ Len(atoms) < MaxLive
  /\ atoms' = Append(atoms, a) /\ coord' = [coord EXCEPT ![a] = NanC] /\ chg' = [chg EXCEPT ![a] = "zero"]
  /\ UNCHANGED <<bonds, dbl, nfresh, nap>>
  /\ Note([act |-> "append_atom", a |-> a], "ok")

(* mol.connect(i, j) by index *)
Connect(i, j) ==
  /\ i \in 1..Len(atoms) /\ j \in 1..Len(atoms) /\ i < j
  /\ LET p == {atoms[i], atoms[j]} IN
     IF p \notin bonds THEN bonds' = bonds \cup {p} /\ UNCHANGED dbl
     ELSE /\ p \notin dbl /\ Cardinality(dbl) < MaxPar          \* connecting a bonded pair again makes a second bond object
          /\ dbl' = dbl \cup {p} /\ UNCHANGED bonds
  /\ UNCHANGED <<atoms, coord, chg, nfresh, nap>>
  /\ Note([act |-> "connect", i |-> i - 1, j |-> j - 1], "ok")

(* mol.append_bond(Bond(x, y)): atoms that do not belong to the molecule yet are adopted *)
AppendBond(x, y) ==
  LET new == <<x, y>> IN
  /\ x \in Live \cup AtomId /\ y \in AtomId \ Live /\ x # y /\ {x, y} \notin bonds
  /\ Len(atoms) + Cardinality({x, y} \ Live) <= MaxLive
  /\ atoms' = IF x \in Live THEN Append(atoms, y) ELSE Append(Append(atoms, x), y)
  /\ bonds' = bonds \cup {{x, y}}
  /\ coord' = [a \in AllId |-> IF a \in {x, y} \ Live THEN NanC ELSE coord[a]]
  /\ chg' = [a \in AllId |-> IF a \in {x, y} \ Live THEN "zero" ELSE chg[a]]
  /\ UNCHANGED <<dbl, nfresh, nap>>
  /\ Note([act |-> "append_bond", x |-> x, y |-> y], "ok")

(* mol.append_bond(Bond(y, x)) where x-y are bonded already: a parallel bond object (reversed ends) *)
AppendBondPar(x, y) ==
  /\ {x, y} \in bonds \ dbl /\ x # y /\ Cardinality(dbl) < MaxPar
  /\ dbl' = dbl \cup {{x, y}}
  /\ UNCHANGED <<atoms, bonds, coord, chg, nfresh, nap>>
  /\ Note([act |-> "append_bond_par", x |-> x, y |-> y], "ok")

(* mol.append_bonds(Bond(x1, y1), Bond(x2, y2)) / extend_bonds([...]): the batch forms; atoms that do not belong to the *)
(* molecule yet are adopted once, in the order in which they first appear                                              *)
AdoptInto(at, a) == IF \E i \in 1..Len(at) : at[i] = a THEN at ELSE Append(at, a)
AppendBonds2(x1, y1, x2, y2, form) ==
  LET new == {x1, y1, x2, y2} \ Live IN
  /\ x1 # y1 /\ x2 # y2 /\ {x1, y1} # {x2, y2} /\ {x1, y1} \notin bonds /\ {x2, y2} \notin bonds
  /\ new # {} /\ new \subseteq AtomId /\ Len(atoms) + Cardinality(new) <= MaxLive
  /\ atoms' = AdoptInto(AdoptInto(AdoptInto(AdoptInto(atoms, x1), y1), x2), y2)
  /\ bonds' = bonds \cup {{x1, y1}, {x2, y2}}
  /\ coord' = [a \in AllId |-> IF a \in new THEN NanC ELSE coord[a]]
  /\ chg' = [a \in AllId |-> IF a \in new THEN "zero" ELSE chg[a]]
  /\ UNCHANGED <<dbl, nfresh, nap>>
  /\ Note([act |-> form, x1 |-> x1, y1 |-> y1, x2 |-> x2, y2 |-> y2], "ok")

(* mol.del_bond(bond object): of two parallel bonds either object may be passed ("first" / "second" in the bond list); *)
(* exactly one bond object goes, the pair stays bonded by the other one                                                *)
DelBond(b, w) ==
  /\ b \in bonds
  /\ IF b \in dbl THEN w \in {"first", "second"} /\ dbl' = dbl \ {b} /\ UNCHANGED bonds
                  ELSE w = "only" /\ bonds' = bonds \ {b} /\ UNCHANGED dbl
  /\ UNCHANGED <<atoms, coord, chg, nfresh, nap>>
  /\ Note([act |-> "del_bond", b |-> b, which |-> w], "ok")

DoDelete(a) ==
  /\ atoms' = Remove(atoms, a)
  /\ bonds' = IF "KeepBondsOfDeleted" \in Deviations THEN bonds ELSE bonds \ Touching(a)
  /\ dbl' = IF "KeepBondsOfDeleted" \in Deviations THEN dbl ELSE dbl \ Touching(a)
  /\ IF "WrongRowDeleted" \in Deviations /\ Len(atoms) > 1 /\ Pos(a) < Len(atoms)
       THEN coord' = [coord EXCEPT ![atoms[Len(atoms)]] = coord[a], ![a] = NoneC]   \* the last row vanished instead of a's
       ELSE coord' = [coord EXCEPT ![a] = NoneC]
  /\ chg' = [chg EXCEPT ![a] = None]
  /\ UNCHANGED <<nfresh, nap>>

DelAtomObj(a) == /\ a \in Live /\ DoDelete(a) /\ Note([act |-> "del_atom", by |-> "object", a |-> a], "ok")
DelAtomIdx(i) ==
  LET act == [act |-> "del_atom", by |-> "index", i |-> i - 1] IN
  /\ i \in 1..(Len(atoms) + 1)
  /\ IF i <= Len(atoms) THEN DoDelete(atoms[i]) /\ Note(act, "ok") ELSE Fail(act)
FirstWith(P(_)) == LET S == {i \in 1..Len(atoms) : P(atoms[i])} IN
                   IF S = {} THEN 0 ELSE CHOOSE i \in S : \A j \in S : i <= j
DelAtomLabel(l) ==
  LET act == [act |-> "del_atom", by |-> "label", l |-> l]
      i == FirstWith(LAMBDA a : LabelOf[a] = l) IN
  IF i = 0 THEN Fail(act) ELSE DoDelete(atoms[i]) /\ Note(act, "ok")
DelAtomElem(e) ==
  LET act == [act |-> "del_atom", by |-> "element", e |-> e]
      i == FirstWith(LAMBDA a : ElemOf[a] = e) IN
  IF i = 0 THEN Fail(act) ELSE DoDelete(atoms[i]) /\ Note(act, "ok")

(* atoms reachable from d without passing s *)
RECURSIVE Reach(_, _)
Reach(S, s) == LET N == S \cup {y \in Live \ {s} : \E x \in S : {x, y} \in bonds} IN IF N = S THEN S ELSE Reach(N, s)

(* mol.remove_substituent(s, d): the d-side is deleted, an attachment point takes d's place *)
RemoveSubstituent(s, d) ==
  /\ {s, d} \in bonds /\ nap < Len(FreshAP)
  /\ LET side == Reach({d}, s)
         f == FreshAP[nap + 1]
     IN /\ atoms' = Append(SelectSeq(atoms, LAMBDA x : x \notin side), f)
        /\ bonds' = {b \in bonds : b \cap side = {}} \cup {{s, f}}
        /\ dbl' = {b \in dbl : b \cap side = {}}
        /\ coord' = [a \in AllId |-> IF a = f THEN coord[d] ELSE IF a \in side THEN NoneC ELSE coord[a]]
        /\ chg' = [a \in AllId |-> IF a = f THEN "zero" ELSE IF a \in side THEN None ELSE chg[a]]
        /\ nap' = nap + 1 /\ UNCHANGED nfresh
  /\ Note([act |-> "remove_substituent", s |-> s, d |-> d], "ok")

(* mol.add_implicit_hydrogens(): only hydrogens are added, each bonded once to its centre *)
Missing(a) == LET v == Valence[ElemOf[a]] n == Cardinality(Touching(a)) + Cardinality({b \in dbl : a \in b})
              IN IF v > n THEN v - n ELSE 0
TotalMissing == LET RECURSIVE Sum(_)
                    Sum(i) == IF i > Len(atoms) THEN 0 ELSE Missing(atoms[i]) + Sum(i + 1)
                IN Sum(1)
AddH ==
  /\ atoms # <<>> /\ TotalMissing \in 1..(Len(Fresh) - nfresh)
  /\ \A a \in Live : ElemOf[a] # "X"
  /\ LET RECURSIVE Centres(_)
         Centres(i) == IF i > Len(atoms) THEN <<>>
                       ELSE [k \in 1..Missing(atoms[i]) |-> atoms[i]] \o Centres(i + 1)
         cs == Centres(1)
         fs == [k \in 1..Len(cs) |-> Fresh[nfresh + k]]
     IN /\ atoms' = atoms \o fs
        /\ bonds' = bonds \cup {{cs[k], fs[k]} : k \in 1..Len(cs)}
        /\ coord' = [a \in AllId |-> IF \E k \in 1..Len(cs) : fs[k] = a THEN AnyC ELSE coord[a]]
        /\ chg' = [a \in AllId |-> IF \E k \in 1..Len(cs) : fs[k] = a THEN "zero" ELSE chg[a]]
        /\ nfresh' = nfresh + Len(cs) /\ UNCHANGED <<nap, dbl>>
  /\ Note([act |-> "add_h"], "ok")

(* mol.substructure(S).translate(v): exactly the selected atoms move *)
SubTranslate(S) ==
  /\ S # {} /\ S \subseteq Live /\ (\A a \in Live : coord[a].sh = 0) /\ \A a \in S : coord[a] \notin {NanC, AnyC, NoneC} /\ coord[a].sh = 0
  /\ coord' = [a \in AllId |-> IF a \in S THEN [coord[a] EXCEPT !.sh = 1] ELSE coord[a]]
  /\ UNCHANGED <<atoms, bonds, dbl, chg, nfresh, nap>>
  /\ Note([act |-> "sub_translate", S |-> S], "ok")

(* Molecule(mol): continue the history on a clone *)
Clone == /\ atoms # <<>> /\ UNCHANGED ev /\ Note([act |-> "clone"], "ok")

(* v = mol.substructure(S), used once (coordinates read) and then KEPT while the molecule is edited *)
MakeView(S) ==
  /\ view = {} /\ S # {} /\ S \subseteq Live /\ Cardinality(S) <= MaxView
  /\ view' = S /\ UNCHANGED ev /\ NoteV([act |-> "make_view", S |-> S], "ok")

(* v.translate(vec) through the view made earlier: still exactly its atoms move, wherever their rows are now *)
ViewTranslate ==
  /\ view # {} /\ view \subseteq Live /\ (\A a \in Live : coord[a].sh = 0)
  /\ \A a \in view : coord[a] \notin {NanC, AnyC, NoneC}
  /\ coord' = [a \in AllId |-> IF a \in view THEN [coord[a] EXCEPT !.sh = 1] ELSE coord[a]]
  /\ view' = {} /\ UNCHANGED <<atoms, bonds, dbl, chg, nfresh, nap>>
  /\ NoteV([act |-> "view_translate", S |-> view], "ok")

Next == \/ \E a \in AtomId : AddAtom(a, a \in QGiven) \/ NewAtom(a) \/ AppendAtom(a) \/ DelAtomObj(a)
        \/ \E i, j \in 1..MaxLive : Connect(i, j)
        \/ \E x, y \in AtomId : AppendBond(x, y)
        \/ \E x, y \in AllId : AppendBondPar(x, y)
        \/ \E x1, y1, x2, y2 \in AtomId, form \in {"append_bonds", "extend_bonds"} : AppendBonds2(x1, y1, x2, y2, form)
        \/ \E x, y \in AllId, w \in {"only", "first", "second"} : DelBond({x, y}, w)
        \/ \E i \in 1..(MaxLive + 1) : DelAtomIdx(i)
        \/ \E l \in {LabelOf[a] : a \in AtomId} \cup {"nolabel"} : DelAtomLabel(l)
        \/ \E e \in {ElemOf[a] : a \in AtomId} \cup {"H"} : DelAtomElem(e)
        \/ \E s, d \in AllId : RemoveSubstituent(s, d)
        \/ AddH
        \/ \E S \in SUBSET AllId : SubTranslate(S)
        \/ Clone
        \/ \E S \in SUBSET AllId : MakeView(S)
        \/ ViewTranslate
Spec == Init /\ [][Next]_vars

---------------------------------------------------------------------------
Obs == [atoms  |-> atoms,
        coords |-> [i \in 1..Len(atoms) |-> coord[atoms[i]]],
        chgs   |-> IF HasCharges THEN [i \in 1..Len(atoms) |-> chg[atoms[i]]] ELSE <<>>,
        bonds  |-> bonds, dbl |-> dbl, aligned |-> TRUE, parents |-> TRUE]

(* ----- clauses of C05 ------------------------------------------------------ *)
Aligned == \A a \in Live : coord[a] # NoneC /\ chg[a] \in {"q", "zero"}
NoDupAtoms == \A i, j \in 1..Len(atoms) : atoms[i] = atoms[j] => i = j
BondsInside == (\A b \in bonds : b \subseteq Live /\ Cardinality(b) = 2) /\ dbl \subseteq bonds /\ Cardinality(dbl) <= MaxPar
KeepsGiven == [][last'.act \notin {"sub_translate", "view_translate"} =>
                   \A a \in Live \cap {atoms'[i] : i \in 1..Len(atoms')} : coord'[a] = coord[a] /\ chg'[a] = chg[a]]_vars
MovesExactlySelected == [][last'.act \in {"sub_translate", "view_translate"} =>
                   \A a \in Live : (a \in last'.S => coord'[a] # coord[a]) /\ (a \notin last'.S => coord'[a] = coord[a])]_vars
DeleteRemovesExactlyIncident ==
  [][last'.act = "del_atom" /\ last'.out = "ok" =>
       \E a \in Live : /\ atoms' = Remove(atoms, a) /\ bonds' = bonds \ Touching(a) /\ dbl' = dbl \ Touching(a)]_vars
(* deleting a bond object removes exactly one bond object *)
DelBondRemovesOne == [][last'.act = "del_bond" =>
       (Cardinality(bonds') + Cardinality(dbl') = Cardinality(bonds) + Cardinality(dbl) - 1 /\ atoms' = atoms)]_vars
FailedIsNoOp == [][last'.out # "ok" => ev' = ev]_vars
=============================================================================
