import json,sys
props={json.loads(l)["id"]:json.loads(l) for l in open('/verif/properties.jsonl')}
def prompt(ids, modules, extra=""):
    ptxt=""
    for i in ids:
        p=props[i]
        ptxt+=f"\n### {i} — {p['title']}\nStatement: {p['statement']}\nQuantifier: {p['quantifier']['text']}\nAnchors: files {p['anchors']['files']}; mechanisms {json.dumps(p['anchors']['mechanism'])}; observe at {p['anchors'].get('observe_at')}\n"
    return f"""You are extending a model-based verification framework (explicit TLA+ specifications + TLC + conformance checks) for the Python cheminformatics library SEDenmarkLab/molli. The repository under test is /repo (Python, importable as `molli` with /venv/bin/python; do NOT edit or commit in /repo). The framework lives in /verif. The sandbox has no network. TLC 1.8 is installed (`tlc`, `tla-sany`, `pcal` on PATH; CommunityModules such as Json, IOUtils, TLCExt, SequencesExt, FiniteSetsExt are on the classpath).

FIRST read, in this order: /verif/BUILDING.md (the rules and the harness API — binding), /verif/DESIGN.md sections 0-3 and the part(s) of section 4 (and the rows of sections 5 and 6, and Appendix C) for your property, then the working exemplars: /verif/spec/UKVCrash.tla + /verif/spec/UKVCrashTrace.tla + /verif/mbv/checks/c03.py (batched trace validation style), /verif/spec/UKVFile.tla + /verif/spec/MCUKVFile.tla + /verif/mbv/checks/c02.py + /verif/mbv/adapters/ukv.py (graph replay style), /verif/mbv/common.py, /verif/mbv/tlc.py, /verif/mbv/trace.py, /verif/mbv/replay.py, /verif/mbv/evidence.py. Then read the anchored code of molli for your property.

YOUR TASK: build the check(s) for the following property/properties, exactly as the framework does it (TLA+ spec decides; TLC runs; real code bound by replay and/or trace validation):
{ptxt}
Files you own (create them; do not edit other files): spec modules {modules}, the check module(s) {', '.join('/verif/mbv/checks/'+i.lower()+'.py' for i in ids)}, and any adapter/driver modules you need under /verif/mbv/adapters/ or /verif/mbv/ with a name starting with your property id or module name. Run your check with `cd /verif && bin/check {ids[0]} quick` (and `thorough`). Use workers=4 for TLC while developing (other people share the 16 cores); the harness functions take a `workers` argument.
{extra}
Requirements:
- The TLA+ spec is the oracle: expected outcomes/verdicts must be computed by TLC from the spec (via emitted graph edges or via trace validation), not by Python code. Python only generates inputs, performs the real calls, abstracts observations (tokens, integers in micro-Angstrom / 1e-3 e), and reports.
- Include named `Deviations` for realistic bugs and call `expect_violation` for each (non-vacuity). Use `require_actions` so an action never taken fails the run.
- Both tiers: quick (<= ~60 s) and thorough (deeper bounds, more inputs; <= ~10 min). Use the seed.
- Evidence via the Evidence class: meaningful `evaluations`, `distinct_nontrivial` (really counted), `rule`, `samples`, TLC stats, assumptions.
- `--replay <file>` must work for the replay files your check writes.
- NO false alarms: compare only what the property states. If the pinned code genuinely violates the property, follow BUILDING.md rule 6: make your own scratch worktree (`git -C /repo worktree add /tmp/wt-{ids[0]} HEAD`), develop the smallest maintainer-acceptable repair there, verify `cd /tmp/wt-{ids[0]} && /venv/bin/python -m pytest -q -p no:cacheprovider molli_test` still gives 81 passed (4 pre-existing failures), verify your check passes with `MBV_REPO=/tmp/wt-{ids[0]} bin/check {ids[0]} quick` and FAILS (exit 1, VIOLATION line) against plain /repo, then write one patch per defect to /verif/.work/fixes/{ids[0]}-<slug>.patch (git diff format, relative to the repo root) plus /verif/.work/fixes/{ids[0]}-<slug>.msg (commit message starting with "fix: "). Defects whose repair would need a redesign: implement the KNOWN-FINDING handling in your check (signature-specific, listed in a dict at the top of your check module named KNOWN, each with id, signature, what) and say so. Remove your worktree when done (`git -C /repo worktree remove --force /tmp/wt-{ids[0]}`).
- Do not commit anything anywhere. Do not touch /repo's working tree. Do not edit registry.py / MANIFEST.json / known_findings.json / DESIGN.md.
- Keep scratch under /verif/.work and clean it up.

When done, reply with a concise report: files created; what the spec models (variables, actions, properties, deviations); what is enumerated/replayed/validated with measured counts and wall times for both tiers; the binding demonstration you did (corrupting a trace field / adapter result => rejected); every finding on the pinned tree (reproducer, patch file, or KNOWN entry); the text you propose for the registry entry (level text, level_note, technique) and for DESIGN.md (what the check does, which realistic code changes it catches and which benign ones it must not flag); anything that is weak or unfinished."""
if __name__=="__main__":
    ids=sys.argv[1].split(","); print(prompt(ids, sys.argv[2], sys.argv[3] if len(sys.argv)>3 else ""))
