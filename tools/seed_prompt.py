import json,sys
props={json.loads(l)["id"]:json.loads(l) for l in open('/verif/properties.jsonl')}
ROUND4_HINT = """Earlier rounds of this exercise already produced changes of these kinds, so prefer something DIFFERENT in kind: caches / memoisation keyed on stale data, shared mutable state between copies, state left behind by a failed operation, a second use of the same handle after something was modified, dropped fields in one reader / writer class. Less used so far: a rarely used public entry point, operator form or keyword-argument combination of the same functionality; the interaction of two features that are each fine alone; boundary values of sizes and counts (0, 1, exactly at a limit, one past it); loops over conformers / atoms / bonds / records that skip or repeat one element under a specific condition; ordering assumptions (dict / set / directory order, sorted vs insertion order); integer / float / bytes / str conversions; resource handling (file modes, flush / close / lock order, partial writes); exit-code, signal and exception-type handling; defaults that change meaning when an argument is omitted vs passed explicitly."""


ROUND5_HINT = """Four earlier rounds of this exercise already produced changes of these kinds, so prefer something DIFFERENT in kind: caches / memoisation, shared mutable state between copies, state left behind by a failed operation, second use of a handle, dropped fields, rarely used entry points / operator forms / keyword arguments, None-versus-empty arguments, boundary sizes, batch loops adopting an element twice, exit-code / signal handling, blank-line or token-level parsing slips. Less used so far: module-level constants and lookup tables the property depends on (element data, type / token tables, struct formats, default buffer sizes); comparison operators and thresholds (<= vs <, tolerance values, abs() dropped); equality / hashing / identity of objects (== versus is, __eq__ that ignores a field) where the code searches or removes by value; iteration over a container while it is modified; silent fallbacks (try / except that swallows an error and continues with a default); wrong exception class raised or caught so that a caller's handler no longer fires; subclass overrides that no longer call or match the base method; text encoding, newline and whitespace handling at file boundaries; sorting keys and stability; time-of-check / time-of-use of files and directories; environment or configuration values read at import time versus call time."""


def prompt(pid, n=2, wt=None, letters="a, b, ...", extra=""):
    p=props[pid]
    wt=wt or f"/tmp/seed-{pid}"
    return f"""You are helping to evaluate a verification effort for the open-source Python library SEDenmarkLab/molli (a cheminformatics toolbox). You get ONE semantic property of the library and a private scratch git worktree of its repository at {wt} (already created; Python: /venv/bin/python; the package imports as `molli`; run anything against the worktree with `cd {wt} && PYTHONPATH={wt} /venv/bin/python ...`). Work ONLY inside {wt} (and /tmp for scratch files you create yourself). Do not read or touch /repo, /verif or any other directory; there is no network.

The property (it currently HOLDS on this tree):

  Title: {p['title']}
  Statement: {p['statement']}
  Scope / quantifier: {p['quantifier']['text']}
  Code it is anchored in: {', '.join(p['anchors']['files'])}

Your task: produce {n} independent, REALISTIC code changes to the library (each a small patch, like a plausible refactoring slip, optimisation, off-by-one, wrong variable, dropped copy, reordered statements, wrong default, mishandled edge case ...), each of which on its own BREAKS the property, while
  (a) the package still imports and the existing test-suite still passes exactly as before: `cd {wt} && /venv/bin/python -m pytest -q -p no:cacheprovider molli_test 2>&1 | tail -3` must still report 81 passed, 4 failed (the 4 failures are pre-existing and unrelated) — check this for every change;
  (b) the breakage needs something SPECIFIC to manifest — a particular interleaving or schedule, a crash or fault at a particular point, a multi-step sequence of operations, an unusual input or configuration, or two cooperating sites that each look fine alone — NOT something that ordinary single-call use would expose at once;
  (c) the changes are different in kind from each other (different mechanism / different clause of the property).
Do not weaken or delete tests, do not add obviously malicious code, do not just `raise`; the change should look like something a maintainer could plausibly commit.
Prefer changes in LESS OBVIOUS places than the central function the property names: helper functions it relies on, constructors and copy paths, caches and memoisation, argument normalisation (alternative argument forms such as index / label / object, defaults, None vs 0 vs empty), rarely taken branches, ordering of two statements, cleanup / exception paths, interactions between two public calls. Think about which clause of the property a reviewer would be least likely to test. {extra} Good hiding places: state left behind by an operation that FAILED; the second use of the same object / file / handle after something else was modified in between; objects shared between two containers or views; valid but unusual argument forms and boundary values (empty, zero, exactly-at-the-limit, duplicates, non-ASCII); behaviour that depends on the ORDER of two otherwise independent calls; code paths only reached through a subclass or through the convenience wrappers rather than the core function.

For each change i in 1..{n} deliver, inside {wt}/_seed/{pid}-<letter>/ (letters {letters}):
  - patch.diff : `git diff` of the library change only (relative to the worktree HEAD; must apply with `git apply` to a clean checkout);
  - demo.py    : a small standalone program that exits 0 on the unchanged tree and exits non-zero (printing what went wrong) with the change applied; it must run as `cd <tree> && PYTHONPATH=<tree> /venv/bin/python _seed/.../demo.py` style, i.e. import molli from the current tree, use temporary directories for files, set the environment variable MOLLI_HOME to a fresh temporary directory before importing molli, and finish within ~60 s;
  - meta.json  : {{"property": "{pid}", "title": "...", "what_it_breaks": "...which clause...", "needs_to_manifest": "...the specific sequence/input/schedule...", "files_changed": [...], "tests_still_pass": true}}.
Verify each yourself: with the patch applied demo.py fails and the test-suite result is unchanged; after `git checkout -- .` (patch removed, keep _seed/ which is untracked) demo.py passes. Switch between the patched and the clean tree with `git apply <patch>` / `git apply -R <patch>` / `git checkout -- .` only; never use `git stash` (the stash is shared by all worktrees of the repository and other people work in theirs). Leave the worktree clean (no patch applied) at the end, with only the untracked _seed/ directory added.

Reply with a short summary of each change (one paragraph each) and the verification output you observed."""
if __name__=="__main__":
    if len(sys.argv) > 2 and sys.argv[2] == "round5":
        print(prompt(sys.argv[1], 2, wt=f"/tmp/seed5-{sys.argv[1]}", letters="i, j", extra=ROUND5_HINT))
    elif len(sys.argv) > 2 and sys.argv[2] == "round4":
        print(prompt(sys.argv[1], 2, wt=f"/tmp/seed4-{sys.argv[1]}", letters="g, h", extra=ROUND4_HINT))
    else:
        print(prompt(sys.argv[1], int(sys.argv[2]) if len(sys.argv)>2 else 2))
